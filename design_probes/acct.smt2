(set-logic QF_BV)
; reserve path of sessionChargingReservation with ABMF contract grant=min(req,bal)
(declare-const A (_ BitVec 64))   ; account (int64, >=0)
(declare-const R (_ BitVec 64))   ; reserved
(declare-const c (_ BitVec 32))   ; unit cost
(declare-const u (_ BitVec 32))   ; used units
(declare-const q (_ BitVec 32))   ; requested units
(define-fun z32 ((x (_ BitVec 32))) (_ BitVec 64) ((_ zero_extend 32) x))
(define-fun usedQ () (_ BitVec 64) (z32 (bvmul u c)))
(define-fun reqQ () (_ BitVec 64) (z32 (bvmul q c)))
(define-fun R1 () (_ BitVec 64) (bvsub R usedQ))
(define-fun need () Bool (not (bvsgt R1 #x0000000000000000)))
(define-fun reserveQ () (_ BitVec 64) (bvadd (bvneg R1) reqQ))
; ABMF: requestQuota := int64(reserveQ); if requestQuota > quota { requestQuota = quota }
(define-fun g () (_ BitVec 64) (ite (bvsgt reserveQ A) A reserveQ))
(define-fun A2 () (_ BitVec 64) (ite need (bvsub A g) A))
(define-fun R2 () (_ BitVec 64) (ite need (bvadd R1 g) R1))
; no-overflow preconditions: products fit in 32 bits
(assert (bvult (bvmul (z32 u) (z32 c)) #x0000000100000000))
(assert (bvult (bvmul (z32 q) (z32 c)) #x0000000100000000))
(assert (bvsge A #x0000000000000000))
; conservation: A2 + R2 == A + R - u*c (exact: as 64-bit with exact product)
(assert (not (= (bvadd A2 R2) (bvsub (bvadd A R) (bvmul (z32 u) (z32 c))))))
(check-sat)
