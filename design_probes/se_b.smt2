; structEncoder.Encode: preservation of the loop invariant across one iteration,
; callee e.Encode(cur) used through the interface contract (writes encB(e,k) at cur[0:L(e)], frame elsewhere)
(set-logic ALL)
(define-sort BV64 () (_ BitVec 64))
(define-sort Bytes () (Array BV64 (_ BitVec 8)))
(define-sort Heap () (Array BV64 Bytes))          ; array-id -> bytes
(declare-sort Enc 0)
(declare-fun L (Enc) BV64)                         ; encLen
(declare-fun B (Enc BV64) (_ BitVec 8))            ; encBytes
(declare-fun S (BV64) Enc)                         ; s[i]
(declare-fun ps (BV64) BV64)                       ; ghost prefix sum
(declare-const n BV64) (declare-const i BV64)
(declare-const id BV64) (declare-const off0 BV64) (declare-const len0 BV64)
(declare-const H0 Heap) (declare-const H Heap) (declare-const H2 Heap)
(define-fun le ((a BV64) (b BV64)) Bool (bvsle a b))
(define-fun lt ((a BV64) (b BV64)) Bool (bvslt a b))
(define-fun z () BV64 #x0000000000000000)
(define-fun big () BV64 #x0000100000000000)
; ghost facts (type invariant of structEncoder + proved monotonicity lemma)
(assert (and (le z n) (lt n big) (le z off0) (lt off0 big) (le z len0) (lt len0 big)))
(assert (= (ps z) z))
(assert (forall ((j BV64)) (! (=> (and (le z j) (lt j n)) (and (= (ps (bvadd j #x0000000000000001)) (bvadd (ps j) (L (S j)))) (le z (L (S j))) (lt (L (S j)) big))) :pattern ((ps (bvadd j #x0000000000000001))) :pattern ((L (S j))))))
(assert (forall ((a BV64) (b BV64)) (! (=> (and (le z a) (le a b) (le b n)) (and (le z (ps a)) (le (ps a) (ps b)))) :pattern ((ps a) (ps b)))))
(assert (le (ps n) len0))                          ; requires len(dst) >= Len()
(define-fun inv ((i BV64) (Hc Heap)) Bool
  (and (le z i) (le i n)
       (forall ((j BV64) (k BV64)) (=> (and (le z j) (lt j i) (le z k) (lt k (L (S j))))
            (= (select (select Hc id) (bvadd off0 (bvadd (ps j) k))) (B (S j) k))))
       (forall ((a BV64) (x BV64)) (=> (not (and (= a id) (le off0 x) (lt x (bvadd off0 (ps i)))))
            (= (select (select Hc a) x) (select (select H0 a) x))))))
(assert (inv i H))
(assert (lt i n))
; cur = dst[ps(i):]  -> (id, off0+ps(i), len0-ps(i)); callee pre: len(cur) >= L(e)
(define-fun coff () BV64 (bvadd off0 (ps i)))
(define-fun e () Enc (S i))
(push)
(assert (not (le (L e) (bvsub len0 (ps i)))))      ; obligation 1: callee precondition
(check-sat)
(pop)
; callee post
(assert (forall ((k BV64)) (=> (and (le z k) (lt k (L e))) (= (select (select H2 id) (bvadd coff k)) (B e k)))))
(assert (forall ((a BV64) (x BV64)) (=> (not (and (= a id) (le coff x) (lt x (bvadd coff (L e)))))
            (= (select (select H2 a) x) (select (select H a) x)))))
(push)
(assert (not (forall ((a BV64) (x BV64)) (=> (not (and (= a id) (le off0 x) (lt x (bvadd off0 (ps (bvadd i #x0000000000000001))))))
            (= (select (select H2 a) x) (select (select H0 a) x))))))
(check-sat)
(pop)
