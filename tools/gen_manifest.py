#!/usr/bin/env python3
# Regenerates /verif/MANIFEST.json from the per-property claims below.
import json, subprocess

TECH = "contract-based deductive verification: weakest-precondition VCs generated over go/ssa from //@ contracts, discharged by z3 5.1.0 / z3 4.8.12 / cvc5 1.0"
BASE_NOTE = "Trusted base: go/ssa (x/tools v0.29.0) as the semantics of the source, the govc generator (guarded by the must-fail corpus ./selftest), the SMT solvers, and the assumed contracts of dependencies listed in the evidence file (trusted_base). Integers are exact Go bit-vectors; one function at a time, callees by contract. "

C = {}
C["C02"] = ("UsedUnitContainerToCdr / MultiUnitUsageToCdr / TriggersToCdr / TimeStampToCdr / PlmnIdToCdr map every container field-for-field, in order, for lists of any length (loop invariants); UpdateCDR appends the reported usage exactly once after what the record holds and leaves earlier entries untouched; OpenCDR stores the identity given at creation; CloseCDR sets the cause; Create/Update/Release act on the record ue.Cdr[sessionId] (assertions at the call of UpdateCDR); the record that continues a split session starts with a usage list of its own (no shared backing array). The BCD time stamp is proved against a specification function for every zone offset.",
               "Not covered: the BER marshalling of the record (trusted BerMarshalWithParams), 'never in the record of another subscriber' across subscribers (pool lookup is an assumed contract).")
C["C03"] = ("dumpCdrFile hands Encoding a structure whose FileLength (mod 2^32), HeaderLength, NumberOfCdrsInFile and every CdrLength describe exactly the bytes written, for any number of records (loop invariants plus an induction over the recursive size specification, 'preserved' clause); a record that fails to marshal or exceeds 65535 octets is refused; (CDRFile).Encoding is proved to write header length + sum of record sizes octets and the header layout, for any number of records.",
               "Assumed: files shorter than 4 GiB (stated at the call of Encoding), BerMarshalWithParams returns a complete BER value (C04 covers its primitives only), os.WriteFile succeeds. The size estimate that splits records in ChargingDataUpdate is not verified: an oversize record is refused (400) rather than written truncated.")
C["C04"] = ("Primitive encoders (INTEGER/ENUMERATED minimal two's complement, BOOLEAN, OCTET/character strings, BIT STRING with unused-bit count 0..7) and appendTagAndLen (class/constructed bits, minimal base-128 tag number, minimal definite length) are proved equal to specification functions written from X.690, for all values; no panics in them. Over the `encoder` interface (assumed method contracts that every implementation is verified against): a constructed value's length is the sum of its children's lengths (structEncoder.Len, any number of children), and berTypeEncoder writes tag-and-length then the value right behind it, inside Len() octets.",
               "makeField's own code (package reflect treated as an opaque dependency) never panics and returns a non-nil encoder whenever it returns no error. Not covered (not proved, not claimed): structEncoder.Encode (undecided); what makeField computes (SEQUENCE/SET/CHOICE composition, OPTIONAL, IMPLICIT/EXPLICIT by parameter, the tag/length it builds) and reflect's own panics - govc has no model of package reflect beyond 'arbitrary result'.")
C["C05"] = ("decode(encode(v)) == v as lemmas over the real primitive encoder/decoder pairs: INTEGER/ENUMERATED of any sign and width (int64), BOOLEAN, BIT STRING of any length; the decoders' contracts state exact results for every input.",
               "Not covered: composite types (reflection), see C04.")
C["C07"] = ("The Diameter credit-control handler of pkg/abmf (handleCCR$1) is proved against its contract for every request: grant = min(requested, balance), stored balance lowered by the grant, final-unit indication iff requested > balance, refund/termination arithmetic exact, answer echoes Session-Id/type/number, unknown account changes no balance. The account table is a ghost map updated by the assumed mongoapi contracts.",
               "Assumed: go-diameter Unmarshal yields an arbitrary well-typed request with the mandatory AVPs present (stated as assume-at clauses), mongoapi get/put behave as a table.")
C["C08"] = ("Rating server handler (pkg/rf handleSUR$1): price = consumed x unit cost (debit), allowed = floor(quota / unit cost) and price = allowed x unit cost <= quota (reserve), no division by zero for any stored tariff; buildTaffif encodes the tariff digits/exponent as specified; CHF side (getUnitCost): the decoded tariff equals the unit cost the server applied, for integer tariffs (exponent 0).",
               "Assumed: numeric string functions (Atoi/ParseUint) as uninterpreted partial functions; math.Pow10(n) exact for 0 <= n <= 9; the rating peer's answer as restated from the server contract (assumed ensures on SendServiceUsageRequest). Decimal-fraction tariffs are outside the CHF-side claim.")
C["C09"] = ("Lock typestate on the real handlers: every Lock is of a mutex not already held by the request (no self-deadlock), every Unlock of a held one, and every return path of Create/Update/Release/NotifyRecharge leaves the lock set as at entry; guarded-by assertions: the session reference is computed and the session table written with the subscriber lock held; NotifyRecharge touches RatingType/NotifyUri only under the lock; the shared record sequence number is read under the context lock; sessionChargingReservation requires the lock.",
               "This is the sequential, per-request part of C09 only. Linearizability, freedom from data races on state not named in a guarded-by assertion (e.g. the UePool insertion race in NewCHFUe) and deadlock across requests are outside what per-function contracts decide.")
C["C10"] = ("Until released, the reference designates its session: Create registers the new record under the returned reference (and the Location ends in it), Update/Release act on ue.Cdr[reference] and on no other key (frame post-condition over all other keys); the reference is computed under the subscriber lock.",
               "Uniqueness of the reference string itself (ueId + consumer + sequence number concatenation) is not decided: strings are an uninterpreted sort with ground axioms, strconv.Itoa injectivity and concatenation ambiguity are not expressible. Observed, not decided: 'ue'+'a1'+'23' and 'ue'+'a12'+'3' collide.")
C["C11"] = ("No-panic (nil dereference, index, slice bounds, division, type assertion) obligations on Create/Update/Release, OpenCDR/UpdateCDR/CloseCDR, dumpCdrFile, sessionChargingReservation, getUnitCost, cdrConvert and the Diameter clients, for every request content; every rejection is a 4xx problem with a body and exactly one response is written per request (HandleChargingdata*, RechargePut, and the three route functions ChargingdataPost / ...UpdatePost / ...ReleasePost that read and decode the body: 500 for an unreadable body, 400 with a problem body for one that does not decode, otherwise the handler's single answer; all over an assumed gin response sink); the subscriber lock is released on every path (a rejected request does not wedge the subscriber).",
               "Assumed: answers of the Diameter peers carry the AVPs the server contracts produce (assumed ensures); openapi.Deserialize is an assumed contract (any value of the request type - any member absent - and any error), the JSON decoder itself is not verified; NewCHFUe admits only imsi- SUPIs (verified), which the slicing in OpenCDR and sessionChargingReservation relies on.")
C["C12"] = ("Create: response iff no problem, echoes the invocation sequence number, Location == url prefix + reference; Update: 200 body echoes the sequence number with a time stamp; Release: nil (204) on success; every problem is 4xx; an unknown session reference is rejected with no effect (no peer request, no reservation/record/session-table change: frame post-conditions); NotifyRecharge hands exactly one notification naming the rating group to the registered URI; the HTTP handlers answer 201/200 with a body, 204 without, or a 4xx problem body.",
               "gin is an assumed response sink; the notification client is an assumed contract (SendChargingNotification); RechargePut's truncation of the rating group to int32 is not covered.")
C["C14"] = ("Header round trip proved for every well-formed header (all fields, all release-identifier combinations, routeing filter and private extension of any length, no records) over the real Encoding contract and the real Decoding code; files with records: bounded stand-ins (exactly 1 and exactly 2 records, thorough tier), never counted as proved.",
               "Assumed: bytes.Buffer/binary.Write/os.WriteFile/os.ReadFile as a ghost byte store. Record dimension bounded; second record's payload bytes not compared (undecided by the installed solvers).")
C["C15"] = ("(CdrFileHeader).Encoding, (CdrHeader).Encoding return exactly the bytes of specification functions written from TS 32.297 6.1 (offsets, big-endian, bit packing, extension octets iff identifier 7, high before low); (CDRFile).Encoding writes that header first and header + sum(record header + payload) octets in total, for any number of records.",
               "The byte positions of the records inside the file are covered by the bounded C14 lemmas only.")
C["C16"] = ("parseTagAndLength, parseInt64, parseSignedInt64, parseBool, parseBitString, ParseField: every index and slice expression in bounds and every arithmetic step free of wrap-around for every input (strict mode), loops with decreasing measures (termination).",
               "ParseField is under a safety contract with package reflect as an opaque dependency: every index, slice and offset computation of its own code stays inside the input for every byte string (recursion through its contract); reflect's own panics (e.g. Set with a mismatching type) are not modelled.")
C["C18"] = ("SendAccountDebitRequest and SendServiceUsageRequest leave the ghost count of live Diameter connections unchanged on every return path (dial, metadata, marshal, write, answer, time-out).",
               "Assumed: DialNetworkTLS opens one connection (with its tasks) or fails, Conn.Close releases it. Watchdog goroutines of go-diameter and the per-subscriber state machines are not modelled.")
C["C20"] = ("A predicate derived mechanically from the valid:\"...\" struct tags in the current source (required pointers non-nil recursively) is assumed after a successful Config.Validate; under it InitChfContext, both Diameter clients and the SBI server start (startServer, with the certificate-path getters) are proved free of nil dereferences; Configuration.validate is proved to reject an unknown service name and the https scheme without a tls section (the one hand-coded presence rule, part of the predicate).",
               "Assumed: govalidator enforces 'required' on nested structs. Not covered: the scheme check itself (runs inside govalidator via TagMap), the Diameter server start-up functions that spawn goroutines (rf/abmf OpenServer), cgf.")

C["C13"] = ("For any list of enabled services, every route is registered ('route' obligation at each GET/POST/PUT/PATCH/DELETE in applyRoutes/newRouter) on a router group on which the authorisation middleware has already been installed - recognised at the Use call site as a function literal that calls (*RouterAuthorizationCheck).Check on its own gin context; nothing is registered on the engine itself or on a sub-group created before Use. The middleware (Check) answers 401 and aborts the chain for every rejected token and writes nothing otherwise; (*CHFContext).AuthorizationCheck hands the token to oauth.VerifyOAuth and returns its verdict unchanged whenever OAuth2Required is set.",
               "Assumed gin semantics: middleware installed with Use runs before handlers registered afterwards on that group, Group() inherits; Abort stops the chain. Assumed: oauth.VerifyOAuth rejects missing/malformed/wrongly signed tokens; ServerChf.Config() returns the validated configuration. How OAuth2Required follows the NRF's declaration is not under contract.")

C["C17"] = ("Second sentence of the property, as the precondition of the assumed Marshal/Unmarshal contracts: for the static message type at each of the 8 Marshal/Unmarshal call sites (clients and servers), every avp:\"Name\" struct tag reachable through grouped members is defined in the dictionaries the process loads (go-diameter defaults, RateDictionary, AbmfDictionary - read from the current source on every run), all its definitions agree on code and data type, no other AVP name shares its (code, vendor), the member's go-diameter data type matches the dictionary type (octet-string types count as one wire class), and no two members of a struct carry the same tag. These 'avp' obligations are decided by evaluation inside the generator, not by the SMT solvers.",
               "First sentence (every value received exactly as sent over the AVP's full range) is go-diameter's reflection-based codec: an assumed contract, not verified. Members of CHF-defined enum types are not type-checked. Known finding kept open: Vendor-Specific-Application-Id has codes 260 and 7027.")

C["C01"] = ("Bounded stand-ins (deductive, all values symbolic; never counted as proved): one credit-control step of one request with one rating group, one online used-unit container, no trigger and both peers answering conserves money - account balance + reservation held == the same sum before - unit cost x reported volume - in debit mode (final report: refund of the unused reservation or debit of the excess, reservation left 0) for every unit cost, and in reserve mode when the held reservation covers the usage at unit cost 1. Proved without bound: the CHF decodes the tariff to the unit cost the rating server applied (getUnitCost, integer tariffs), FindRatingGroup is an exact search. The account-balance and rating servers' own arithmetic is C07/C08.",
               "The peers' behaviour is restated from the server-side contracts as assumed clauses on the Diameter clients (ghost balance and tariff). Not decided and not claimed: conservation across a new reservation in reserve mode (undecided even at unit cost 1), symbolic unit cost in reserve mode (decided only up to cost 4 in about two minutes), several rating groups or containers per request, the history-long invariant, recharges, failure paths (a lost answer).")
C["C06"] = ("Bounded stand-ins (same setting as C01, reserve mode at unit cost 1, all four scenarios: rating group known/new x reservation held/needed): after a reservation step the account balance is not negative, the granted volume is at most what the money available buys - min(price of the requested volume, money held for the rating group) / unit cost - and the response entry carries final-unit action TERMINATE exactly when the account cannot cover the reservation the request needs. In debit mode the reservation ends at 0. The server side (grant == min(requested, balance), final-unit indication iff short) is proved without bound in C07.",
               "Found and repaired with this clause: the full requested volume was granted whatever the account could reserve (fix dd053e2). Several rating groups per request: proved without bound that a later rating group's iteration does not alter the final-unit action already put into an earlier response entry (loop-preserved clause on sessionChargingReservation, catches the aliasing of C06-m1); the arithmetic itself is bounded to one rating group per request. Not claimed: symbolic unit cost, 'never negative' over a whole history.")

NA = {
 "C19": "Matching late answers to requests is a timing/ordering property of channels and goroutines (select with time.After, per-subscriber channel shared across requests); govc models sequential code only.",
}

checks = []
for pid in sorted(C):
    text, note = C[pid]
    checks.append({
        "property_id": pid,
        "quick_cmd": f"./check {pid} quick",
        "thorough_cmd": f"./check {pid} thorough",
        "evidence_file": f"/verif/evidence/{pid}.json",
        "replay_cmd_template": "./check --replay {path}",
        "engine": "govc",
        "level_claimed": {"category": "proof", "text": text, "design_ref": "DESIGN.md sections 4 and 11"},
        "level_note": BASE_NOTE + note,
        "technique": TECH,
    })

hooks = subprocess.run(["git", "-C", "/repo", "log", "--format=%h %s"], capture_output=True, text=True).stdout.splitlines()
verif_commits = [l.split()[0] for l in hooks if l.split(" ", 1)[1].startswith("verif:")]

m = {
 "version": 1,
 "setup_cmd": "cd /verif/govc && GOFLAGS=-mod=mod GOPROXY=off GOSUMDB=off GOTOOLCHAIN=local go build -o ../bin/govc .",
 "hooks": {
  "guard": "verif",
  "enable": "go build -tags verif (contracts and specification functions live in */zz_contracts_verif.go, compiled only under the tag; clause functions are generated on every run and supplied by overlay, never written to /repo)",
  "baseline_off_cmd": "cd /repo && GOFLAGS=-mod=mod GOPROXY=off GOSUMDB=off GOTOOLCHAIN=local go test -vet=off -count=1 ./...",
  "source_commits": verif_commits,
  "add_only": True,
 },
 "engines": [{
   "name": "govc", "path": "/verif/govc", "serves_properties": sorted(C),
   "kind_free_text": "home-made VC generator for Go: symbolic execution of go/ssa (naive form) against //@ contracts kept in build-tag-guarded files, bit-vector/array SMT encoding, portfolio of z3 5.1.0, z3 4.8.12, cvc5 1.0, replay of models on the real code through go test -overlay",
 }],
 "checks": checks,
 "not_applicable": [{"property_id": k, "reason": v} for k, v in sorted(NA.items())],
 "notes": "All checks are ./check <id> quick|thorough (cwd /verif). Known findings: /verif/known_findings.txt (only 'fixed:' entries at present). Must-fail corpus: ./selftest (seeded changes under /verif/seeded and reverse patches of the fix commits).",
}
json.dump(m, open("/verif/MANIFEST.json", "w"), indent=1)
print("checks:", len(checks), "n/a:", len(NA), "hook commits:", len(verif_commits))
