#!/usr/bin/env python3
"""Replaces section 11.5 of DESIGN.md by the table rendered from seeded/RESULTS.json."""
import json, re, subprocess
d = open('/verif/DESIGN.md').read()
i = d.index('### 11.5 Which seeded change is caught by which check')
m = re.search(r'\n## ', d[i:])
j = i + m.start() if m else len(d)
res = json.load(open('/verif/seeded/RESULTS.json'))
n = {k: sum(1 for v in res.values() if v.get('outcome') == k) for k in ('CAUGHT', 'MISSED', 'HOLDS')}
other = sorted(k for k, v in res.items() if v.get('outcome') not in ('CAUGHT', 'MISSED', 'HOLDS'))
missed = sorted(k for k, v in res.items() if v.get('outcome') == 'MISSED')
table = subprocess.run(['python3', '/verif/tools/seeded_table.py'], capture_output=True, text=True).stdout
intro = f"""### 11.5 Which seeded change is caught by which check

Source: `./selftest` (quick tier unless the entry says otherwise), `/verif/seeded/RESULTS.json`. "seeded" = written
by a fresh sub-agent that was given only the property text and a scratch checkout without the contract files
(four rounds: m1/m2 early, m3/m4 against the tree after the fixes, m5/m6 last, with the additional request to avoid the kinds of change the earlier rounds had produced); "reverse of <commit>" = the inverse of
one of the `fix:` commits (the defect it repaired comes back); "own-" = a canary written by the author. Every
change compiles and passes the 84 baseline tests. Last run: {n['CAUGHT']} caught, {n['MISSED']} missed{(' (' + ', '.join(missed) + ')') if missed else ''},
{n['HOLDS']} where the property holds with the change applied (C03-m1, see correction 15){('; not run: ' + ', '.join(other)) if other else ''}.
Several third- and fourth-round changes were missed at first and are caught by contracts added because of them - each
addition is a clause the property text asks for, not a special case of the seed: C06-m1 (later rating
groups must not alter earlier final-unit indications), C12-m4 (a successful create registers the
notification URI), C09-m4 (no subscriber lock across the consumer callback), C04-m4 (no reflect method on
the zero Value), C05-m4 (ENUMERATED decoded as two's complement), C10-m3 (the sequence number does not
wrap), C14-m4 (needs the bounded two-record lemma, thorough tier); from the fourth round C09-m5/m6 (guarded-by on the sequence number read-back and on the session-table lookups of update and release), C10-m6 (the number in the reference is the CHF-wide sequence number), C16-m6 (no value is built from an element that does not fit the input), C02-m6 (the IPv4/IPv6/FQDN consumer identification in the record), C20-m5 (`Config.Validate` is now checked against its body instead of being trusted). C03-m3 is a change in the BER encoder and is
caught by C04's encoder contracts, on which C03's "complete BER value" clause rests; C18-m2 (re-enabled
watchdog tasks: goroutines are not modelled) has no patch for the fixed tree and would be missed. Most
violations are reported with `no-failing-input-found`: the replay harness only builds inputs for functions
with plain integer/slice parameters (the BER parsers, the file header encoders).

"""
open('/verif/DESIGN.md', 'w').write(d[:i] + intro + table + d[j:])
