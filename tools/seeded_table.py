#!/usr/bin/env python3
# Renders /verif/seeded/RESULTS.json as the markdown table of DESIGN.md section 11.5.
import json, os, re
R = json.load(open('/verif/seeded/RESULTS.json'))
rows = []
for k in sorted(R):
    r = R[k]
    meta = json.load(open(f'/verif/seeded/{k}/meta.json'))
    origin = meta.get('origin', '')
    origin = re.sub(r'^reverse of fix commit (\w+): fix: ', r'reverse of \1: ', origin)
    if origin.startswith('fresh sub-agent'):
        origin = 'seeded by a sub-agent from the property text'
        if meta.get('note'):
            origin += ' (' + meta['note'] + ')'
    caught = []
    for p, c in r.get('checks', {}).items():
        if c['exit'] == 1 and c['violations']:
            m = re.search(r'obligation="((?:[^"\\]|\\.)*)"', c['violations'][0])
            ob = m.group(1).replace('\\"', '"') if m else c['violations'][0][:100]
            rep = ', replayed on the real code' if c.get('reproduced') else ''
            caught.append(f"{p}: `{ob[:110]}`" + (f" (+{c['n_violations']-1} more)" if c['n_violations'] > 1 else '') + rep)
        else:
            caught.append(f"{p}: passes")
    out = r.get('outcome', '?')
    rows.append(f"| {k} | {meta.get('property')} | {origin[:150]} | {out} | {'; '.join(caught) if caught else '-'} |")
print("| change | written against | origin | outcome | checks run (first violated obligation) |")
print("|---|---|---|---|---|")
print("\n".join(rows))
