package processor

// Demonstration for the C09 finding: NotifyRecharge writes ue.RatingType (a Go map) without the
// subscriber lock while a charging update of the same subscriber writes it under the lock.
// Run with the race detector: go test -race -overlay ... -run TestVerifNotifyRechargeRace

import (
	"sync"
	"testing"

	chf_context "github.com/free5gc/chf/internal/context"
	"github.com/free5gc/chf/pkg/factory"
	"github.com/free5gc/openapi/models"
)

func TestVerifNotifyRechargeRace(t *testing.T) {
	factory.ChfConfig = &factory.Config{
		Info: &factory.Info{Version: "1.0.0"},
		Configuration: &factory.Configuration{
			Sbi:          &factory.Sbi{Scheme: "http", RegisterIPv4: "127.0.0.1", BindingIPv4: "127.0.0.1", Port: 8000},
			RfDiameter:   &factory.Diameter{Protocol: "tcp", HostIPv4: "127.0.0.1", Port: 1, Tls: &factory.Tls{}},
			AbmfDiameter: &factory.Diameter{Protocol: "tcp", HostIPv4: "127.0.0.1", Port: 1, Tls: &factory.Tls{}},
		},
	}
	chf_context.Init()
	self := chf_context.GetSelf()
	ue, err := self.NewCHFUe("imsi-208930000000099")
	if err != nil {
		t.Fatal(err)
	}
	p := &Processor{}
	var wg sync.WaitGroup
	wg.Add(2)
	go func() {
		defer wg.Done()
		for i := 0; i < 200; i++ {
			ue.CULock.Lock()
			// what sessionChargingReservation does for a rating group it has not seen (under the lock)
			sessionChargingReservation(models.ChfConvergedChargingChargingDataRequest{
				SubscriberIdentifier: "imsi-208930000000099",
				MultipleUnitUsage:    []models.ChfConvergedChargingMultipleUnitUsage{{RatingGroup: int32(1000 + i)}},
			})
			ue.CULock.Unlock()
		}
	}()
	go func() {
		defer wg.Done()
		for i := 0; i < 200; i++ {
			p.NotifyRecharge("imsi-208930000000099", int32(i))
		}
	}()
	wg.Wait()
}
