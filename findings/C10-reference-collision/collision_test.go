package processor

// Demonstration for the C10 finding: the session reference was the plain concatenation
// subscriber + consumer name + sequence number, so consumer "SMF1" at sequence number 2 and consumer "SMF"
// at sequence number 12 of the same subscriber got the same reference "...SMF12"; the second create
// replaced the first session in the subscriber's table (its record can no longer be updated or released).
// Run through go test -overlay (package internal/sbi/processor), -run TestVerifReferenceCollision.

import (
	"os"
	"strings"
	"testing"

	chf_context "github.com/free5gc/chf/internal/context"
	"github.com/free5gc/chf/pkg/factory"
	"github.com/free5gc/openapi/models"
)

func TestVerifReferenceCollision(t *testing.T) {
	factory.ChfConfig = &factory.Config{
		Info: &factory.Info{Version: "1.0.0"},
		Configuration: &factory.Configuration{
			Sbi:          &factory.Sbi{Scheme: "http", RegisterIPv4: "127.0.0.1", BindingIPv4: "127.0.0.1", Port: 8000},
			RfDiameter:   &factory.Diameter{Protocol: "tcp", HostIPv4: "127.0.0.1", Port: 1, Tls: &factory.Tls{}},
			AbmfDiameter: &factory.Diameter{Protocol: "tcp", HostIPv4: "127.0.0.1", Port: 1, Tls: &factory.Tls{}},
			Cgf:          &factory.Cgf{Enable: false},
		},
	}
	chf_context.Init()
	self := chf_context.GetSelf()
	const supi = "imsi-208930000000077"
	defer os.Remove("/tmp/" + supi + ".cdr")
	p := &Processor{}
	create := func(consumer string, chargingId int32) string {
		_, location, problem := p.ChargingDataCreate(models.ChfConvergedChargingChargingDataRequest{
			SubscriberIdentifier:     supi,
			ChargingId:               chargingId,
			NfConsumerIdentification: &models.ChfConvergedChargingNfIdentification{NFName: consumer, NodeFunctionality: "SMF"},
		})
		if problem != nil {
			t.Fatalf("create by %s rejected: %+v", consumer, problem)
		}
		return location[strings.LastIndex(location, "/")+1:]
	}
	self.Lock()
	self.LocalRecordSequenceNumber = 2
	self.Unlock()
	refA := create("SMF1", 1001)
	self.Lock()
	self.LocalRecordSequenceNumber = 12 // nine more records were opened in the meantime
	self.Unlock()
	refB := create("SMF", 1002)
	t.Logf("references: %q (SMF1 at 2), %q (SMF at 12)", refA, refB)
	if refA == refB {
		t.Errorf("two unreleased sessions of %s share the reference %q", supi, refA)
	}
	ue, _ := self.ChfUeFindBySupi(supi)
	ue.CULock.Lock()
	defer ue.CULock.Unlock()
	recA, recB := ue.Cdr[refA], ue.Cdr[refB]
	if recA == nil || recA.ChargingFunctionRecord == nil || recA.ChargingFunctionRecord.ChargingID == nil || recA.ChargingFunctionRecord.ChargingID.Value != 1001 {
		t.Errorf("reference %q no longer designates the session opened with charging id 1001", refA)
	}
	if recB == nil || recB.ChargingFunctionRecord == nil || recB.ChargingFunctionRecord.ChargingID == nil || recB.ChargingFunctionRecord.ChargingID.Value != 1002 {
		t.Errorf("reference %q does not designate the session opened with charging id 1002", refB)
	}
}
