package cdrConvert

// Demonstration for the C11 finding in PlmnIdToCdr: the length guard counts bytes, the digits are taken
// from strings.Split(s, ""), which yields one part per UTF-8 character. An MCC such as "2é" (3 bytes,
// 2 characters) passed the guard and mcc[2] was out of range. The conversion runs inside OpenCDR while
// ChargingDataCreate holds the subscriber lock without a deferred unlock: the request is answered 500 by
// the recovery middleware and every later request of that subscriber blocks.
// Run through go test -overlay (package cdr/cdrConvert), -run TestVerifPlmnNonASCII.

import (
	"testing"

	"github.com/free5gc/openapi/models"
)

func TestVerifPlmnNonASCII(t *testing.T) {
	for _, id := range []models.PlmnId{{Mcc: "2é", Mnc: "93"}, {Mcc: "208", Mnc: "é"}, {Mcc: "208", Mnc: "9é"}, {Mcc: "€", Mnc: "93"}} {
		func() {
			defer func() {
				if r := recover(); r != nil {
					t.Errorf("REPLAY-PANIC: PlmnIdToCdr(%q, %q): %v", id.Mcc, id.Mnc, r)
				}
			}()
			out := PlmnIdToCdr(id)
			t.Logf("PlmnIdToCdr(%q, %q) = %x", id.Mcc, id.Mnc, out.Value)
		}()
	}
	if out := PlmnIdToCdr(models.PlmnId{Mcc: "208", Mnc: "93"}); len(out.Value) != 3 {
		t.Errorf("PlmnIdToCdr(208, 93) = %x", out.Value)
	}
}
