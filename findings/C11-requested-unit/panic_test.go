package processor

// Demonstration for the C11 finding: an online usage report without requestedUnit makes
// sessionChargingReservation dereference a nil pointer (the HTTP handler panics, gin answers 500).

import (
	"testing"

	chf_context "github.com/free5gc/chf/internal/context"
	"github.com/free5gc/chf/pkg/factory"
	"github.com/free5gc/openapi/models"
)

func TestVerifRequestedUnitNil(t *testing.T) {
	factory.ChfConfig = &factory.Config{
		Info: &factory.Info{Version: "1.0.0"},
		Configuration: &factory.Configuration{
			Sbi:          &factory.Sbi{Scheme: "http", RegisterIPv4: "127.0.0.1", BindingIPv4: "127.0.0.1", Port: 8000},
			RfDiameter:   &factory.Diameter{Protocol: "tcp", HostIPv4: "127.0.0.1", Port: 1, Tls: &factory.Tls{}},
			AbmfDiameter: &factory.Diameter{Protocol: "tcp", HostIPv4: "127.0.0.1", Port: 1, Tls: &factory.Tls{}},
		},
	}
	chf_context.Init()
	ue, err := chf_context.GetSelf().NewCHFUe("imsi-208930000000098")
	if err != nil {
		t.Fatal(err)
	}
	defer func() {
		if r := recover(); r != nil {
			t.Fatalf("REPLAY-PANIC: %v", r)
		}
	}()
	ue.CULock.Lock()
	defer ue.CULock.Unlock()
	sessionChargingReservation(models.ChfConvergedChargingChargingDataRequest{
		SubscriberIdentifier: "imsi-208930000000098",
		MultipleUnitUsage: []models.ChfConvergedChargingMultipleUnitUsage{{
			RatingGroup: 1,
			UsedUnitContainer: []models.ChfConvergedChargingUsedUnitContainer{{
				QuotaManagementIndicator: models.QuotaManagementIndicator_ONLINE_CHARGING, TotalVolume: 10,
			}},
		}},
	})
}
