package factory

// Demonstration for the C20 finding: scheme https without an sbi.tls section passes Config.Validate, and the
// SBI server start dereferences the missing section (GetCertPemPath).

import "testing"

func TestVerifHttpsWithoutTls(t *testing.T) {
	d := func() *Diameter {
		return &Diameter{Protocol: "tcp", HostIPv4: "127.0.0.1", Port: 3868, Tls: &Tls{Pem: "a.pem", Key: "a.key"}}
	}
	cfg := &Config{
		Info:   &Info{Version: "1.0.3"},
		Logger: &Logger{Level: "info"},
		Configuration: &Configuration{
			ChfName:         "CHF",
			Sbi:             &Sbi{Scheme: "https", RegisterIPv4: "127.0.0.1", BindingIPv4: "127.0.0.1", Port: 8000},
			ServiceNameList: []string{"nchf-convergedcharging"},
			NrfUri:          "http://127.0.0.10:8000",
			Mongodb:         &Mongodb{Name: "free5gc", Url: "mongodb://localhost:27017"},
			RfDiameter:      d(),
			AbmfDiameter:    d(),
			Cgf:             &Cgf{HostIPv4: "127.0.0.1", Port: 2121, ListenPort: 2122},
		},
	}
	cfg.Configuration.Cgf.PassiveTransferPortRange.Start = 2123
	cfg.Configuration.Cgf.PassiveTransferPortRange.End = 2130
	if _, err := cfg.Validate(); err != nil {
		t.Skipf("configuration rejected by validation (the property holds for it): %v", err)
	}
	defer func() {
		if r := recover(); r != nil {
			t.Fatalf("REPLAY-PANIC: validated https configuration, reading the certificate path as the SBI server start does: %v", r)
		}
	}()
	if cfg.GetSbiScheme() == "https" {
		_ = cfg.GetCertPemPath()
	}
}
