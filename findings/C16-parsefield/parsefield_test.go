package asn

// Demonstrations for the C16 findings in ParseField (found by its safety obligations; reflect is opaque to
// the verifier, so the inputs were written by hand from the candidate models).

import "testing"

func noPanic(t *testing.T, what string, f func() error) {
	defer func() {
		if r := recover(); r != nil {
			t.Fatalf("REPLAY-PANIC: %s: %v", what, r)
		}
	}()
	err := f()
	t.Logf("%s: returned %v", what, err)
}

func TestVerifZeroLengthBoolean(t *testing.T) {
	var b bool
	noPanic(t, "Unmarshal({0x01,0x00}, &bool)", func() error { return Unmarshal([]byte{0x01, 0x00}, &b) })
}

func TestVerifUntaggedStructMember(t *testing.T) {
	type T struct{ A int64 }
	var v T
	noPanic(t, "Unmarshal(SEQUENCE{INTEGER 5}, &struct{A int64})", func() error {
		return Unmarshal([]byte{0x30, 0x03, 0x02, 0x01, 0x05}, &v)
	})
}
