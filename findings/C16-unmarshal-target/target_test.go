package asn

// Demonstration for the C16 finding in UnmarshalWithParams (obligation
// asn.UnmarshalWithParams#safety:reflect-zero:reflect.ValueOf(value).Elem()): a nil target, a nil pointer
// target and a non-pointer target made Unmarshal panic inside package reflect instead of returning an
// error. Run through go test -overlay (package cdr/asn), -run TestVerifUnmarshalTarget.

import "testing"

func TestVerifUnmarshalTarget(t *testing.T) {
	in := []byte{0x02, 0x01, 0x05}
	try := func(what string, target interface{}) {
		defer func() {
			if r := recover(); r != nil {
				t.Errorf("REPLAY-PANIC: Unmarshal(INTEGER 5, %s): %v", what, r)
			}
		}()
		err := Unmarshal(in, target)
		t.Logf("Unmarshal(INTEGER 5, %s): returned %v", what, err)
		if err == nil {
			t.Errorf("Unmarshal(INTEGER 5, %s) reported no error", what)
		}
	}
	try("nil", nil)
	try("(*int64)(nil)", (*int64)(nil))
	try("int64(0)", int64(0))
	var ok int64
	if err := Unmarshal(in, &ok); err != nil || ok != 5 {
		t.Errorf("Unmarshal(INTEGER 5, &int64): %v, %d", err, ok)
	}
}
