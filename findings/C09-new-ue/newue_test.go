package context

// Demonstration for the C09 finding in NewCHFUe: the pool lookup and the insertion were two steps with
// nothing held in between, so concurrent first requests of one subscriber each created and inserted their
// own context. The loser's context - with the session it is about to open and the lock the following
// requests rely on - is replaced in the pool: its acknowledged session can be neither updated nor released,
// and the two requests do not exclude each other. After the fix all callers get the same context.
// Run through go test -overlay (package internal/context), -run TestVerifNewUeOnce.

import (
	"fmt"
	"sync"
	"testing"

	"github.com/free5gc/chf/pkg/factory"
)

func TestVerifNewUeOnce(t *testing.T) {
	factory.ChfConfig = &factory.Config{
		Info: &factory.Info{Version: "1.0.0"},
		Configuration: &factory.Configuration{
			Sbi:          &factory.Sbi{Scheme: "http", RegisterIPv4: "127.0.0.1", BindingIPv4: "127.0.0.1", Port: 8000},
			RfDiameter:   &factory.Diameter{Protocol: "tcp", HostIPv4: "127.0.0.1", Port: 1, Tls: &factory.Tls{}},
			AbmfDiameter: &factory.Diameter{Protocol: "tcp", HostIPv4: "127.0.0.1", Port: 1, Tls: &factory.Tls{}},
		},
	}
	Init()
	self := GetSelf()
	const workers = 8
	for round := 0; round < 200; round++ {
		supi := fmt.Sprintf("imsi-2089300%08d", round)
		got := make([]*ChfUe, workers)
		var start, done sync.WaitGroup
		start.Add(1)
		for w := 0; w < workers; w++ {
			done.Add(1)
			go func(w int) {
				defer done.Done()
				start.Wait()
				ue, err := self.NewCHFUe(supi)
				if err != nil {
					t.Error(err)
				}
				got[w] = ue
			}(w)
		}
		start.Done()
		done.Wait()
		pooled, _ := self.ChfUeFindBySupi(supi)
		for w := 0; w < workers; w++ {
			if got[w] != pooled {
				t.Fatalf("round %d: worker %d was handed a subscriber context that is not the one in the pool (two contexts were created for %s)", round, w, supi)
			}
		}
	}
}
