#!/bin/bash
# Runs one hand-written demonstration of /verif/findings against the code in $VERIF_REPO (default /repo)
# without writing to the repository: the test file is injected with `go test -overlay`.
#   findings/run.sh <finding-directory-name> [extra go test flags, e.g. -race]
# A demonstration FAILS on code that has the defect and passes on the repaired tree.
set -e
export GOFLAGS=-mod=mod GOPROXY=off GOSUMDB=off GOTOOLCHAIN=local
here="$(cd "$(dirname "$0")" && pwd)"
repo="${VERIF_REPO:-/repo}"
name="$1"; shift || true
case "$name" in
  C04-makefield|C16-parsefield|C16-unmarshal-target) pkg=cdr/asn ;;
  C06-grant-limit|C10-reference-collision|C09-notify-recharge|C09-sequence-number|C11-requested-unit) pkg=internal/sbi/processor ;;
  C09-cgf-conn) pkg=internal/cgf ;;
  C11-plmn-utf8) pkg=cdr/cdrConvert ;;
  C09-new-ue) pkg=internal/context ;;
  C12-recharge-rating-group) pkg=internal/sbi ;;
  C17-dictionary) pkg=pkg/rf ;;
  C20-diameter-tls) pkg=internal/abmf ;;
  C20-sbi-tls) pkg=pkg/factory ;;
  *) echo "unknown finding: $name"; ls "$here"; exit 2 ;;
esac
race=""
case "$name" in C09-new-ue) ;; C09-*) race="-race" ;; esac
ov="$(mktemp /var/tmp/findings_ov_XXXXXX.json)"
trap 'rm -f "$ov"' EXIT
{
  echo '{"Replace": {'
  first=1
  for f in "$here/$name"/*_test.go; do
    [ $first = 1 ] || echo ','
    first=0
    printf '  "%s/%s/zz_verif_%s": "%s"' "$repo" "$pkg" "$(basename "$f")" "$f"
  done
  if [ -f "$here/$name/mongoapi_fake.go" ]; then
    m="$(cd "$repo" && go list -m -f '{{.Dir}}' github.com/free5gc/util)"
    printf ',\n  "%s/mongoapi/mongoapi.go": "%s"' "$m" "$here/$name/mongoapi_fake.go"
  fi
  echo
  echo '}}'
} > "$ov"
cd "$repo"
go test -vet=off -count=1 -timeout 300s $race -overlay "$ov" -run 'TestVerif|TestC06' "$@" "./$pkg/"
