// In-memory stand-in for github.com/free5gc/util/mongoapi (v1.0.6), substituted
// with `go test -overlay`. It keeps the signatures of the functions used by
// free5gc/chf and imports only what the original file imports.
package mongoapi

import (
	"fmt"

	"go.mongodb.org/mongo-driver/bson"
)

const (
	COLLATION_STRENGTH_IGNORE_DIACRITICS_AND_CASE int = iota + 1
	COLLATION_STRENGTH_IGNORE_CASE
	COLLATION_STRENGTH_DEFAULT
)

type lock chan struct{}

func (l lock) Lock()   { l <- struct{}{} }
func (l lock) Unlock() { <-l }

var (
	mu     = make(lock, 1) // channel used as mutex: "sync" is not among the original imports
	tables = map[string][]map[string]interface{}{}
)

func SetMongoDB(setdbName string, url string) error { return nil }

// norm makes 1, int32(1), uint32(1) and datatype.Unsigned32(1) compare equal
// (%d does not invoke String()).
func norm(v interface{}) string {
	if s, ok := v.(string); ok {
		return "s:" + s
	}
	return fmt.Sprintf("%d", v)
}

func match(doc map[string]interface{}, filter bson.M) bool {
	for k, v := range filter {
		dv, ok := doc[k]
		if !ok || norm(dv) != norm(v) {
			return false
		}
	}
	return true
}

func RestfulAPIGetOne(collName string, filter bson.M, argOpt ...interface{}) (
	result map[string]interface{}, err error,
) {
	mu.Lock()
	defer mu.Unlock()
	for _, doc := range tables[collName] {
		if match(doc, filter) {
			out := make(map[string]interface{}, len(doc))
			for k, v := range doc {
				out[k] = v
			}
			return out, nil
		}
	}
	return nil, nil
}

func RestfulAPIPutOne(collName string, filter bson.M, putData map[string]interface{}, argOpt ...interface{}) (
	bool, error,
) {
	mu.Lock()
	defer mu.Unlock()
	for _, doc := range tables[collName] {
		if match(doc, filter) {
			for k, v := range putData { // $set
				doc[k] = v
			}
			return true, nil
		}
	}
	doc := make(map[string]interface{}, len(putData))
	for k, v := range putData {
		doc[k] = v
	}
	tables[collName] = append(tables[collName], doc)
	return false, nil
}

func RestfulAPIDeleteMany(collName string, filter bson.M, argOpt ...interface{}) error {
	mu.Lock()
	defer mu.Unlock()
	var keep []map[string]interface{}
	for _, doc := range tables[collName] {
		if !match(doc, filter) {
			keep = append(keep, doc)
		}
	}
	tables[collName] = keep
	return nil
}
