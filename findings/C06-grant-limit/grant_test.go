// Demonstration for the open C06 finding (grant not limited by the money reserved), built on the full-stack
// harness a seeding sub-agent wrote for C06/m1.
//
// Copy this file into the package directory  internal/sbi/processor  (as demo_test.go) and run it
// with the in-memory mongoapi overlay (see run_demo.sh / notes.md):
//
//	go test -vet=off -count=1 -overlay <overlay.json> -run TestC06 ./internal/sbi/processor/
//
// It starts the project's real rating function (pkg/rf) and account balance management function
// (pkg/abmf) Diameter servers in-process on 127.0.0.1 (TLS, throw-away certificate) and drives the
// real CHF update path (Processor.BuildConvergedChargingDataUpdateResopone -> sessionChargingReservation).
// Only MongoDB is replaced (by an in-memory table, through -overlay).
package processor

import (
	"context"
	"crypto/ecdsa"
	"crypto/elliptic"
	"crypto/rand"
	"crypto/x509"
	"crypto/x509/pkix"
	"encoding/pem"
	"math/big"
	"net"
	"os"
	"path/filepath"
	"strconv"
	"sync"
	"testing"
	"time"

	"go.mongodb.org/mongo-driver/bson"

	chf_context "github.com/free5gc/chf/internal/context"
	"github.com/free5gc/chf/pkg/abmf"
	"github.com/free5gc/chf/pkg/factory"
	"github.com/free5gc/chf/pkg/rf"
	"github.com/free5gc/openapi/models"
	"github.com/free5gc/util/mongoapi"
)

const demoColl = "policyData.ues.chargingData"

var (
	demoStackOnce sync.Once
	demoTmpDir    string
)

// TestMain removes the throw-away TLS certificate directory after the run.
func TestMain(m *testing.M) {
	code := m.Run()
	if demoTmpDir != "" {
		os.RemoveAll(demoTmpDir)
	}
	os.Exit(code)
}

func demoFreePort(t *testing.T) int {
	l, err := net.Listen("tcp", "127.0.0.1:0")
	if err != nil {
		t.Fatal(err)
	}
	defer l.Close()
	return l.Addr().(*net.TCPAddr).Port
}

func demoWriteCert(t *testing.T, dir string) (string, string) {
	key, err := ecdsa.GenerateKey(elliptic.P256(), rand.Reader)
	if err != nil {
		t.Fatal(err)
	}
	tmpl := &x509.Certificate{
		SerialNumber: big.NewInt(1),
		Subject:      pkix.Name{CommonName: "127.0.0.1"},
		NotBefore:    time.Now().Add(-time.Hour),
		NotAfter:     time.Now().Add(time.Hour),
		IPAddresses:  []net.IP{net.ParseIP("127.0.0.1")},
		KeyUsage:     x509.KeyUsageDigitalSignature,
		ExtKeyUsage:  []x509.ExtKeyUsage{x509.ExtKeyUsageServerAuth, x509.ExtKeyUsageClientAuth},
	}
	der, err := x509.CreateCertificate(rand.Reader, tmpl, tmpl, &key.PublicKey, key)
	if err != nil {
		t.Fatal(err)
	}
	kb, err := x509.MarshalECPrivateKey(key)
	if err != nil {
		t.Fatal(err)
	}
	certPath, keyPath := filepath.Join(dir, "demo.pem"), filepath.Join(dir, "demo.key")
	if err = os.WriteFile(certPath, pem.EncodeToMemory(&pem.Block{Type: "CERTIFICATE", Bytes: der}), 0o600); err != nil {
		t.Fatal(err)
	}
	if err = os.WriteFile(keyPath, pem.EncodeToMemory(&pem.Block{Type: "EC PRIVATE KEY", Bytes: kb}), 0o600); err != nil {
		t.Fatal(err)
	}
	return certPath, keyPath
}

// demoStartStack starts the project's own rating function (pkg/rf) and account
// balance management function (pkg/abmf) Diameter servers on 127.0.0.1, backed
// by the in-memory mongoapi overlay, and initialises the CHF context.
func demoStartStack(t *testing.T) {
	demoStackOnce.Do(func() {
		dir, err := os.MkdirTemp("", "c06demo")
		if err != nil {
			t.Fatal(err)
		}
		demoTmpDir = dir
		certPath, keyPath := demoWriteCert(t, dir)
		tls := &factory.Tls{Pem: certPath, Key: keyPath}
		factory.ChfConfig = &factory.Config{
			Info: &factory.Info{Version: "1.0.3"},
			Configuration: &factory.Configuration{
				ChfName:             "CHF",
				Sbi:                 &factory.Sbi{Scheme: "http", RegisterIPv4: "127.0.0.1", BindingIPv4: "127.0.0.1", Port: 8000},
				Mongodb:             &factory.Mongodb{Name: "free5gc", Url: "mongodb://in-memory"},
				VolumeThresholdRate: 0.8,
				RfDiameter:          &factory.Diameter{Protocol: "tcp", HostIPv4: "127.0.0.1", Port: demoFreePort(t), Tls: tls},
				AbmfDiameter:        &factory.Diameter{Protocol: "tcp", HostIPv4: "127.0.0.1", Port: demoFreePort(t), Tls: tls},
			},
		}
		chf_context.Init()
		wg := &sync.WaitGroup{}
		wg.Add(2)
		rf.OpenServer(context.Background(), wg)
		abmf.OpenServer(context.Background(), wg)
		for _, d := range []*factory.Diameter{
			factory.ChfConfig.Configuration.RfDiameter, factory.ChfConfig.Configuration.AbmfDiameter,
		} {
			addr := d.HostIPv4 + ":" + strconv.Itoa(d.Port)
			ok := false
			for i := 0; i < 200 && !ok; i++ {
				if c, errDial := net.DialTimeout("tcp", addr, 100*time.Millisecond); errDial == nil {
					c.Close()
					ok = true
				} else {
					time.Sleep(10 * time.Millisecond)
				}
			}
			if !ok {
				t.Fatalf("diameter server %s did not come up", addr)
			}
		}
	})
}

// demoSubscriber provisions one charging record (as the webconsole does) and the UE context.
func demoSubscriber(t *testing.T, supi string, rg int32, balance int64, unitCost string) {
	filter := bson.M{"ueId": supi, "ratingGroup": rg}
	if _, err := mongoapi.RestfulAPIPutOne(demoColl, filter, map[string]interface{}{
		"ueId": supi, "ratingGroup": rg, "quota": strconv.FormatInt(balance, 10), "unitCost": unitCost,
	}); err != nil {
		t.Fatal(err)
	}
	if _, err := chf_context.GetSelf().NewCHFUe(supi); err != nil {
		t.Fatal(err)
	}
}

func demoBalance(t *testing.T, supi string, rg int32) int64 {
	doc, err := mongoapi.RestfulAPIGetOne(demoColl, bson.M{"ueId": supi, "ratingGroup": rg})
	if err != nil || doc == nil {
		t.Fatalf("no charging record for %s/%d: %v", supi, rg, err)
	}
	b, err := strconv.ParseInt(doc["quota"].(string), 10, 64)
	if err != nil {
		t.Fatal(err)
	}
	return b
}

// demoUsage builds one multipleUnitUsage entry: report `used` units, ask for `requested` units.
func demoUsage(rg int32, used, requested int32) models.ChfConvergedChargingMultipleUnitUsage {
	return models.ChfConvergedChargingMultipleUnitUsage{
		RatingGroup:   rg,
		RequestedUnit: &models.RequestedUnit{TotalVolume: requested},
		UsedUnitContainer: []models.ChfConvergedChargingUsedUnitContainer{{
			QuotaManagementIndicator: models.QuotaManagementIndicator_ONLINE_CHARGING,
			TotalVolume:              used,
		}},
	}
}

func demoRequest(supi string, usages ...models.ChfConvergedChargingMultipleUnitUsage,
) []models.MultipleUnitInformation {
	rsp, _ := (&Processor{}).BuildConvergedChargingDataUpdateResopone(models.ChfConvergedChargingChargingDataRequest{
		SubscriberIdentifier: supi,
		MultipleUnitUsage:    usages,
	})
	return rsp.MultipleUnitInformation
}

func demoInfoFor(t *testing.T, infos []models.MultipleUnitInformation, rg int32) models.MultipleUnitInformation {
	for _, i := range infos {
		if i.RatingGroup == rg {
			return i
		}
	}
	t.Fatalf("no multipleUnitInformation for rating group %d in %+v", rg, infos)
	return models.MultipleUnitInformation{}
}

const demoTerminate = models.FinalUnitAction_TERMINATE

// One charging data request carries two rating groups. The subscriber's money for the FIRST one
// does not cover the requested quota, the money for the second one does.
// Expected (property C06): the ABMF limits the reservation for rating group 1 to the balance and
// the response entry of rating group 1 carries the final-unit indication.
func TestVerifGrantNotLimitedByMoney(t *testing.T) {
	demoStartStack(t)
	const supi = "imsi-208930000000061"
	demoSubscriber(t, supi, 1, 50, "1") // balance 50, unit cost 1
	ue, err := chf_context.GetSelf().NewCHFUe(supi)
	if err != nil {
		t.Fatal(err)
	}
	infos := demoRequest(supi, demoUsage(1, 0, 100)) // nothing used yet, 100 units requested
	info := demoInfoFor(t, infos, 1)
	if info.GrantedUnit == nil {
		t.Fatalf("no grant at all")
	}
	held := ue.ReservedQuota[1]
	t.Logf("balance after: %d, reservation held: %d, granted volume: %d", demoBalance(t, supi, 1), held, info.GrantedUnit.TotalVolume)
	if int64(info.GrantedUnit.TotalVolume) > held {
		t.Fatalf("REPLAY-MISMATCH: the money held (%d, unit cost 1) buys %d units but %d units were granted", held, held, info.GrantedUnit.TotalVolume)
	}
}
