package asn

// Demonstrations for the C04 finding in makeField: berType.value stays nil (a SEQUENCE whose members are all
// OPTIONAL and absent; a Go kind the codec does not support) and the next statement calls Len() on it.

import "testing"

func TestVerifMarshalAllOptionalAbsent(t *testing.T) {
	type T struct {
		A *int64 `ber:"tagNum:0,optional"`
	}
	defer func() {
		if r := recover(); r != nil {
			t.Fatalf("REPLAY-PANIC: BerMarshal(struct with one absent OPTIONAL member): %v", r)
		}
	}()
	b, err := BerMarshal(T{})
	t.Logf("bytes % x, err %v", b, err)
	if err == nil && (len(b) != 2 || b[0] != 0x30 || b[1] != 0x00) {
		t.Fatalf("REPLAY-MISMATCH: expected the empty SEQUENCE 30 00, got % x", b)
	}
}

func TestVerifMarshalUnsupportedKind(t *testing.T) {
	defer func() {
		if r := recover(); r != nil {
			t.Fatalf("REPLAY-PANIC: BerMarshal(float64): %v", r)
		}
	}()
	b, err := BerMarshal(float64(1))
	t.Logf("bytes % x, err %v", b, err)
	if err == nil {
		t.Fatalf("REPLAY-MISMATCH: an unsupported kind was marshalled without error: % x", b)
	}
}
