package processor

// Demonstration for the C09 finding: ChargingDataCreate reads the global LocalRecordSequenceNumber without
// the context lock while OpenCDR (of another subscriber's create) increments it under that lock.
// Run with the race detector: go test -race -overlay ... -run TestVerifSequenceNumberRace

import (
	"fmt"
	"os"
	"sync"
	"testing"

	chf_context "github.com/free5gc/chf/internal/context"
	"github.com/free5gc/chf/pkg/factory"
	"github.com/free5gc/openapi/models"
)

func TestVerifSequenceNumberRace(t *testing.T) {
	factory.ChfConfig = &factory.Config{
		Info: &factory.Info{Version: "1.0.0"},
		Configuration: &factory.Configuration{
			Sbi:          &factory.Sbi{Scheme: "http", RegisterIPv4: "127.0.0.1", BindingIPv4: "127.0.0.1", Port: 8000},
			RfDiameter:   &factory.Diameter{Protocol: "tcp", HostIPv4: "127.0.0.1", Port: 1, Tls: &factory.Tls{}},
			AbmfDiameter: &factory.Diameter{Protocol: "tcp", HostIPv4: "127.0.0.1", Port: 1, Tls: &factory.Tls{}},
			Cgf:          &factory.Cgf{HostIPv4: "127.0.0.1", Port: 1, ListenPort: 2},
		},
	}
	chf_context.Init()
	p := &Processor{}
	var wg sync.WaitGroup
	for g := 0; g < 2; g++ {
		wg.Add(1)
		go func(g int) {
			defer wg.Done()
			supi := fmt.Sprintf("imsi-20893000000010%d", g)
			defer os.Remove("/tmp/" + supi + ".cdr")
			for i := 0; i < 20; i++ {
				p.ChargingDataCreate(models.ChfConvergedChargingChargingDataRequest{
					SubscriberIdentifier:     supi,
					NfConsumerIdentification: &models.ChfConvergedChargingNfIdentification{NFName: "smf", NodeFunctionality: "SMF"},
				})
			}
		}(g)
	}
	wg.Wait()
}
