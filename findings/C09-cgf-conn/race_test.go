package cgf

// Demonstration for the C09 finding: SendCDR read (and used) the shared FTP connection cgf.conn without
// connMutex, while Login - called from another request's SendCDR - replaces it under that mutex: a data
// race on global state between charging requests of different subscribers (CGF enabled).
// Run with the race detector through go test -overlay (package internal/cgf):
//   go test -race -vet=off -overlay <overlay.json> -run TestVerifCgfConnRace ./internal/cgf/

import (
	"context"
	"fmt"
	"net"
	"os"
	"sync"
	"testing"
	"time"

	"github.com/free5gc/chf/pkg/factory"
)

func TestVerifCgfConnRace(t *testing.T) {
	dir := t.TempDir()
	factory.ChfConfig = &factory.Config{
		Info: &factory.Info{Version: "1.0.0"},
		Configuration: &factory.Configuration{
			Sbi: &factory.Sbi{Scheme: "http", RegisterIPv4: "127.0.0.1", BindingIPv4: "127.0.0.1", Port: 8000},
			Cgf: &factory.Cgf{Enable: true, HostIPv4: "127.0.0.1", Port: 2191, ListenPort: 2191, CdrFilePath: dir},
		},
	}
	factory.ChfConfig.Configuration.Cgf.PassiveTransferPortRange.Start = 2192
	factory.ChfConfig.Configuration.Cgf.PassiveTransferPortRange.End = 2199
	CGFEnable = true
	// the server is left running until the test binary exits: the graceful shutdown of the third-party
	// ftpserver package has a data race of its own (Server.WaitGracefully / considerEnd), not the CHF's
	ctx := context.Background()
	var wg sync.WaitGroup
	wg.Add(1)
	if OpenServer(ctx, &wg) == nil {
		t.Fatal("FTP server did not start")
	}
	defer os.Remove("/tmp/config.json")
	// Serve first tries to log in (before it listens), then listens: wait for the listener
	for i := 0; i < 100; i++ {
		if c, err := net.DialTimeout("tcp", "127.0.0.1:2191", 100*time.Millisecond); err == nil {
			c.Close()
			break
		}
		time.Sleep(100 * time.Millisecond)
	}
	var g sync.WaitGroup
	for i := 0; i < 8; i++ {
		g.Add(1)
		go func(i int) {
			defer g.Done()
			supi := fmt.Sprintf("imsi-20893000000088%d", i)
			os.WriteFile("/tmp/"+supi+".cdr", []byte("x"), 0o600)
			defer os.Remove("/tmp/" + supi + ".cdr")
			if err := SendCDR(supi); err != nil {
				t.Logf("SendCDR(%s): %v", supi, err)
			}
		}(i)
	}
	g.Wait()
}
