package abmf

// Demonstration for the C20 finding: a configuration without rfDiameter/abmfDiameter tls sections passes
// Config.Validate (the member is tagged optional) but every credit-control request dereferences it.

import (
	"testing"

	charging_datatype "github.com/free5gc/chf/ccs_diameter/datatype"
	chf_context "github.com/free5gc/chf/internal/context"
	"github.com/free5gc/chf/pkg/factory"
)

func TestVerifDiameterTlsOptional(t *testing.T) {
	d := func() *factory.Diameter {
		return &factory.Diameter{Protocol: "tcp", HostIPv4: "127.0.0.1", Port: 3868}
	}
	cfg := &factory.Config{
		Info:   &factory.Info{Version: "1.0.3"},
		Logger: &factory.Logger{Level: "info"},
		Configuration: &factory.Configuration{
			ChfName:         "CHF",
			Sbi:             &factory.Sbi{Scheme: "http", RegisterIPv4: "127.0.0.1", BindingIPv4: "127.0.0.1", Port: 8000},
			ServiceNameList: []string{"nchf-convergedcharging"},
			NrfUri:          "http://127.0.0.10:8000",
			Mongodb:         &factory.Mongodb{Name: "free5gc", Url: "mongodb://localhost:27017"},
			RfDiameter:      d(),
			AbmfDiameter:    d(),
			Cgf:             &factory.Cgf{HostIPv4: "127.0.0.1", Port: 2121, ListenPort: 2122},
		},
	}
	cfg.Configuration.Cgf.PassiveTransferPortRange.Start = 2123
	cfg.Configuration.Cgf.PassiveTransferPortRange.End = 2130
	if _, err := cfg.Validate(); err != nil {
		t.Skipf("configuration rejected by validation (the property holds for it): %v", err)
	}
	factory.ChfConfig = cfg
	chf_context.Init()
	ue, err := chf_context.GetSelf().NewCHFUe("imsi-208930000000097")
	if err != nil {
		t.Fatal(err)
	}
	defer func() {
		if r := recover(); r != nil {
			t.Fatalf("REPLAY-PANIC: validated configuration, first account request: %v", r)
		}
	}()
	_, _ = SendAccountDebitRequest(ue, &charging_datatype.AccountDebitRequest{})
}
