package sbi

// Demonstration for the C12 finding: RechargePut parsed the rating group with strconv.Atoi (64 bits) and
// handed int32(rg) on, so a recharge for rating group 4294967297 (= 2^32 + 1) was answered 204 and acted
// on rating group 1 - a rating group the request never named. After the fix the request is answered 400.
// Run (from /repo, package internal/sbi) through go test -overlay, see ../README or DESIGN.md 11.3:
//   go test -vet=off -overlay <overlay.json> -run TestVerifRechargeRatingGroup ./internal/sbi/

import (
	"net/http/httptest"
	"testing"

	"github.com/gin-gonic/gin"

	chf_context "github.com/free5gc/chf/internal/context"
	"github.com/free5gc/chf/internal/sbi/processor"
	"github.com/free5gc/chf/pkg/factory"
)

type verifFakeChf struct {
	ServerChf
	p *processor.Processor
}

func (f verifFakeChf) Processor() *processor.Processor { return f.p }

func TestVerifRechargeRatingGroup(t *testing.T) {
	factory.ChfConfig = &factory.Config{
		Info: &factory.Info{Version: "1.0.0"},
		Configuration: &factory.Configuration{
			Sbi:          &factory.Sbi{Scheme: "http", RegisterIPv4: "127.0.0.1", BindingIPv4: "127.0.0.1", Port: 8000},
			RfDiameter:   &factory.Diameter{Protocol: "tcp", HostIPv4: "127.0.0.1", Port: 1, Tls: &factory.Tls{}},
			AbmfDiameter: &factory.Diameter{Protocol: "tcp", HostIPv4: "127.0.0.1", Port: 1, Tls: &factory.Tls{}},
		},
	}
	chf_context.Init()
	self := chf_context.GetSelf()
	ue, err := self.NewCHFUe("imsi-208930000000098")
	if err != nil {
		t.Fatal(err)
	}
	ue.NotifyUri = "http://127.0.0.1:1/notify" // nothing listens: the notification fails fast, which is fine here
	p, _ := processor.NewProcessor(nil)
	s := &Server{ServerChf: verifFakeChf{p: p}}

	gin.SetMode(gin.TestMode)
	w := httptest.NewRecorder()
	c, _ := gin.CreateTestContext(w)
	c.Request = httptest.NewRequest("PUT", "/nchf-convergedcharging/v3/recharging/x", nil)
	c.Params = gin.Params{{Key: "rechargingInfo", Value: "imsi-208930000000098_4294967297"}}
	s.RechargePut(c)
	c.Writer.WriteHeaderNow()

	ue.CULock.Lock()
	_, touched := ue.RatingType[1]
	ue.CULock.Unlock()
	t.Logf("status %d, rating group 1 touched: %v", w.Code, touched)
	if touched {
		t.Errorf("recharge for rating group 4294967297 acted on rating group 1 (status %d)", w.Code)
	}
	if w.Code != 400 {
		t.Errorf("a rating group outside the int32 range of the API must be rejected with 400, got %d", w.Code)
	}
}
