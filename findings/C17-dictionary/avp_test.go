package rf

// Demonstration for the C17 findings: values sent in the CHF's Diameter messages are compared with what
// the receiving side decodes, using the dictionaries exactly as the CHF process loads them.

import (
	"bytes"
	"testing"

	"github.com/fiorix/go-diameter/diam"
	"github.com/fiorix/go-diameter/diam/datatype"
	"github.com/fiorix/go-diameter/diam/dict"

	charging_code "github.com/free5gc/chf/ccs_diameter/code"
	charging_datatype "github.com/free5gc/chf/ccs_diameter/datatype"
	charging_dict "github.com/free5gc/chf/ccs_diameter/dict"
)

var dictsLoaded bool

// the process loads each dictionary once (a second Load of the same commands is refused)
func loadDicts(t *testing.T) {
	if dictsLoaded {
		return
	}
	dictsLoaded = true
	for _, d := range []string{charging_dict.RateDictionary, charging_dict.AbmfDictionary} {
		if err := dict.Default.Load(bytes.NewReader([]byte(d))); err != nil {
			t.Fatal(err)
		}
	}
}

func roundTrip(t *testing.T, m *diam.Message) *diam.Message {
	var buf bytes.Buffer
	if _, err := m.WriteTo(&buf); err != nil {
		t.Fatal(err)
	}
	r, err := diam.ReadMessage(&buf, dict.Default)
	if err != nil {
		t.Fatal(err)
	}
	return r
}

func TestVerifUserNameTransport(t *testing.T) {
	loadDicts(t)
	sent := charging_datatype.ServiceUsageRequest{
		SessionId:   "1",
		OriginHost:  "client",
		OriginRealm: "go-diameter",
		UserName:    datatype.OctetString("CHF"),
	}
	m := diam.NewRequest(charging_code.ServiceUsageMessage, charging_code.Re_interface, dict.Default)
	if err := m.Marshal(&sent); err != nil {
		t.Fatalf("REPLAY: Marshal: %v", err)
	}
	var got charging_datatype.ServiceUsageRequest
	if err := roundTrip(t, m).Unmarshal(&got); err != nil {
		t.Fatalf("REPLAY: Unmarshal: %v", err)
	}
	if string(got.UserName) != "CHF" {
		t.Fatalf("REPLAY-MISMATCH: User-Name sent %q, received %q", sent.UserName, got.UserName)
	}
}

func TestVerifABResponseTransport(t *testing.T) {
	loadDicts(t)
	sent := charging_datatype.AccountDebitResponse{
		SessionId:   "1",
		OriginHost:  "server",
		OriginRealm: "go-diameter",
		ABResponse: &charging_datatype.ABResponse{
			AcctBalance: &charging_datatype.AcctBalance{AcctBalanceId: 7},
		},
	}
	m := diam.NewRequest(charging_code.ABMF_CreditControl, charging_code.Re_interface, dict.Default)
	if err := m.Marshal(&sent); err != nil {
		t.Fatalf("REPLAY: Marshal: %v", err)
	}
	var got charging_datatype.AccountDebitResponse
	if err := roundTrip(t, m).Unmarshal(&got); err != nil {
		t.Fatalf("REPLAY: Unmarshal: %v", err)
	}
	if got.ABResponse == nil || got.ABResponse.AcctBalance == nil || got.ABResponse.AcctBalance.AcctBalanceId != 7 {
		t.Fatalf("REPLAY-MISMATCH: AB-Response{Acct-Balance{}} sent, received %+v", got.ABResponse)
	}
}
