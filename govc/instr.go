package main

import (
	"fmt"
	"go/token"
	"go/types"
	"path/filepath"
	"strings"

	"golang.org/x/tools/go/ssa"
)

// srcText returns the source text around pos (used for obligation labels)
func (ex *Exec) srcText(pos token.Pos) string {
	return ex.V.exprAt(pos)
}

func (ex *Exec) safety(fr *Frame, kind string, pos token.Pos, pc, goal *Term) {
	label := ex.srcText(pos)
	if label == "?" && ex.curInstr != nil {
		label = ex.curInstr.String()
		if p := ex.curInstr.Parent(); p != nil {
			// position of the closest preceding instruction with a position, for orientation
			for _, in := range ex.curInstr.Block().Instrs {
				if in == ex.curInstr {
					break
				}
				if in.Pos().IsValid() {
					pos = in.Pos()
				}
			}
		}
	}
	ex.oblige(fr, "safety:"+kind, label, pos, pc, goal, ex.safetyProps)
}

// ---------------------------------------------------------------- memory

func (ex *Exec) assumeWF(st *State, pc *Term, v Value) {
	less := func(t *Term) *Term {
		if pc.IsTrue() || true {
			// allocation facts are unconditional properties of well-formed heaps
			noteLess(t, st.next)
		}
		return ULt(t, st.next)
	}
	switch x := v.(type) {
	case VSlice:
		b := C64(int64(SizeBound))
		// built before the terms are registered as non-negative (the facts must reach the solver)
		wf := And(SLe(C64(0), x.Len), SLe(x.Len, x.Cap), SLe(x.Cap, b), SLe(C64(0), x.Off), SLe(x.Off, b), less(x.Arr),
			Implies(Eq(x.Arr, C64(0)), Eq(x.Cap, C64(0))))
		// a type invariant of every slice value in a well-typed heap: assumed unconditionally
		ex.assume(True, wf)
		for _, t := range []*Term{x.Len, x.Off, x.Cap} {
			if !t.IsConst() {
				nonNeg[t] = true
			}
		}
		return
		ex.assume(pc, And(SLe(C64(0), x.Len), SLe(x.Len, x.Cap), SLe(x.Cap, b), SLe(C64(0), x.Off), SLe(x.Off, b), less(x.Arr),
			Implies(Eq(x.Arr, C64(0)), Eq(x.Cap, C64(0)))))
	case VPtr:
		if x.T != nil {
			ex.assume(pc, less(x.T))
		}
	case VMap:
		ex.assume(pc, less(x.T))
	case VIface:
		ex.assume(pc, less(x.Pay))
	case VStruct:
		for _, f := range x.F {
			ex.assumeWF(st, pc, f)
		}
	case VTuple:
		for _, f := range x.F {
			ex.assumeWF(st, pc, f)
		}
	}
}

func isArrayType(t types.Type) (*types.Array, bool) {
	a, ok := under(t).(*types.Array)
	return a, ok
}

// loadObj reads a whole object of type t at heap id p.
func (ex *Exec) loadObj(st *State, pc *Term, t types.Type, p *Term) Value {
	if a, ok := isArrayType(t); ok {
		ss := leafSorts(a.Elem())
		ls := make([]*Term, len(ss))
		for i, s := range ss {
			ls[i] = Select(st.comp(eCompName(a.Elem(), i), ArrSort(BV64, ArrSort(BV64, s))), p)
		}
		return VArr{ls, a.Len()}
	}
	ss := leafSorts(t)
	ls := make([]*Term, len(ss))
	for i, s := range ss {
		ls[i] = Select(st.comp(hCompName(t, i), ArrSort(BV64, s)), p)
	}
	v := fromLeaves(t, ls)
	ex.assumeWF(st, pc, v)
	return v
}

func (ex *Exec) noteWrite(name string) {
	ex.checkLoopWrite(name)
	if ex.writeLog != nil {
		ex.writeLog[name] = true
	}
}

func (ex *Exec) storeObj(st *State, t types.Type, p *Term, v Value) {
	if a, ok := isArrayType(t); ok {
		ss := leafSorts(a.Elem())
		ls := v.(VArr).Leaves
		for i, s := range ss {
			n := eCompName(a.Elem(), i)
			c := st.comp(n, ArrSort(BV64, ArrSort(BV64, s)))
			nc := Store(c, p, ls[i])
			if nc != c {
				ex.noteWrite(n)
				st.setComp(n, nc)
			}
		}
		return
	}
	ss := leafSorts(t)
	ls := toLeaves(v)
	for i, s := range ss {
		n := hCompName(t, i)
		c := st.comp(n, ArrSort(BV64, s))
		nc := Store(c, p, ls[i])
		if nc != c {
			ex.noteWrite(n)
			st.setComp(n, nc)
		}
	}
}

func (ex *Exec) loadElem(st *State, pc *Term, t types.Type, arr, idx *Term) Value {
	ss := leafSorts(t)
	ls := make([]*Term, len(ss))
	for i, s := range ss {
		ls[i] = Select(Select(st.comp(eCompName(t, i), ArrSort(BV64, ArrSort(BV64, s))), arr), idx)
	}
	v := fromLeaves(t, ls)
	ex.assumeWF(st, pc, v)
	return v
}

func (ex *Exec) storeElem(st *State, t types.Type, arr, idx *Term, v Value) {
	ss := leafSorts(t)
	ls := toLeaves(v)
	for i, s := range ss {
		n := eCompName(t, i)
		c := st.comp(n, ArrSort(BV64, ArrSort(BV64, s)))
		nc := Store(c, arr, Store(Select(c, arr), idx, ls[i]))
		if nc != c {
			ex.noteWrite(n)
			st.setComp(n, nc)
		}
	}
}

func (ex *Exec) load(st *State, pc *Term, lv *LValue) Value {
	var root Value
	switch {
	case lv.Cell != nil:
		r, ok := st.cells[lv.Cell]
		if !ok {
			panic("cell not initialised: " + lv.Cell.Comment)
		}
		root = r
	case lv.Elem:
		root = ex.loadElem(st, pc, lv.T, lv.P, lv.Idx)
	default:
		// narrow to the field range when the path starts with field steps
		t, path, lo := lv.T, lv.Path, 0
		for len(path) > 0 && !path[0].IsIdx {
			stt, ok := under(t).(*types.Struct)
			if !ok {
				break
			}
			l, _ := fieldLeafRange(stt, path[0].Field)
			lo += l
			t = stt.Field(path[0].Field).Type()
			path = path[1:]
		}
		if _, isArr := isArrayType(lv.T); isArr || lo == 0 && len(path) == len(lv.Path) {
			root = ex.loadObj(st, pc, lv.T, lv.P)
			return readPath(root, lv.Path)
		}
		ss := leafSorts(t)
		ls := make([]*Term, len(ss))
		for i, s := range ss {
			ls[i] = Select(st.comp(hCompName(lv.T, lo+i), ArrSort(BV64, s)), lv.P)
		}
		v := fromLeaves(t, ls)
		ex.assumeWF(st, pc, v)
		return readPath(v, path)
	}
	return readPath(root, lv.Path)
}

func (ex *Exec) store(st *State, pc *Term, lv *LValue, v Value) {
	switch {
	case lv.Cell != nil:
		if len(lv.Path) == 0 {
			st.cells[lv.Cell] = v
			return
		}
		st.cells[lv.Cell] = writePath(st.cells[lv.Cell], lv.Path, v)
	case lv.Elem:
		if len(lv.Path) == 0 {
			ex.storeElem(st, lv.T, lv.P, lv.Idx, v)
			return
		}
		old := ex.loadElem(st, pc, lv.T, lv.P, lv.Idx)
		ex.storeElem(st, lv.T, lv.P, lv.Idx, writePath(old, lv.Path, v))
	default:
		t, path, lo := lv.T, lv.Path, 0
		if _, isArr := isArrayType(lv.T); !isArr {
			for len(path) > 0 && !path[0].IsIdx {
				stt, ok := under(t).(*types.Struct)
				if !ok {
					break
				}
				l, _ := fieldLeafRange(stt, path[0].Field)
				lo += l
				t = stt.Field(path[0].Field).Type()
				path = path[1:]
			}
			ss := leafSorts(t)
			var nv Value = v
			if len(path) > 0 {
				ls := make([]*Term, len(ss))
				for i, s := range ss {
					ls[i] = Select(st.comp(hCompName(lv.T, lo+i), ArrSort(BV64, s)), lv.P)
				}
				nv = writePath(fromLeaves(t, ls), path, v)
			}
			nl := toLeaves(nv)
			for i, s := range ss {
				n := hCompName(lv.T, lo+i)
				c := st.comp(n, ArrSort(BV64, s))
				nc := Store(c, lv.P, nl[i])
				if nc != c {
					ex.noteWrite(n)
					st.setComp(n, nc)
				}
			}
			return
		}
		old := ex.loadObj(st, pc, lv.T, lv.P)
		ex.storeObj(st, lv.T, lv.P, writePath(old, lv.Path, v))
	}
}

// ptrLV turns a pointer value into an lvalue; emits the nil check.
func (ex *Exec) ptrLV(fr *Frame, st *State, pc *Term, pv Value, pt types.Type, pos token.Pos) *LValue {
	p := pv.(VPtr)
	if p.LV != nil {
		return p.LV
	}
	ex.safety(fr, "nil", pos, pc, Not(Eq(p.T, C64(0))))
	elem := under(pt).(*types.Pointer).Elem()
	return &LValue{T: elem, P: p.T}
}

func (ex *Exec) alloc(st *State, pc *Term) *Term {
	p := st.next
	st.next = Add(st.next, C64(1))
	return p
}

// ---------------------------------------------------------------- instructions

func (ex *Exec) step(fr *Frame, st *State, pc *Term, instr ssa.Instruction) *Term {
	switch x := instr.(type) {
	case *ssa.DebugRef:
	case *ssa.Alloc:
		t := under(x.Type()).(*types.Pointer).Elem()
		if !x.Heap {
			st.cells[x] = zeroValue(t)
			fr.vals[x] = VPtr{LV: &LValue{Cell: x}}
		} else {
			p := ex.alloc(st, pc)
			ex.storeObj(st, t, p, zeroValue(t))
			if types.TypeString(t, nil) == "bytes.Buffer" {
				// a new buffer is empty (ghost content used by the assumed Buffer/binary.Write contracts)
				st.setComp(compBufLen, Store(st.comp(compBufLen, bufLenS), p, C64(0)))
			}
			fr.vals[x] = VPtr{T: p}
		}
	case *ssa.Store:
		lv := ex.ptrLV(fr, st, pc, ex.val(fr, st, x.Addr), x.Addr.Type(), x.Pos())
		ex.store(st, pc, lv, ex.val(fr, st, x.Val))
	case *ssa.UnOp:
		fr.vals[x] = ex.unop(fr, st, pc, x)
	case *ssa.BinOp:
		fr.vals[x] = ex.binop(fr, st, pc, x.Op, ex.val(fr, st, x.X), ex.val(fr, st, x.Y), x.X.Type(), x.Y.Type(), x.Type(), x.Pos())
	case *ssa.FieldAddr:
		lv := ex.ptrLV(fr, st, pc, ex.val(fr, st, x.X), x.X.Type(), x.Pos())
		fr.vals[x] = VPtr{LV: lv.extend(Step{Field: x.Field})}
	case *ssa.Field:
		fr.vals[x] = ex.val(fr, st, x.X).(VStruct).F[x.Field]
	case *ssa.IndexAddr:
		fr.vals[x] = ex.indexAddr(fr, st, pc, x)
	case *ssa.Index:
		base := ex.val(fr, st, x.X)
		idx := ex.idx64(ex.val(fr, st, x.Index), x.Index.Type())
		switch b := base.(type) {
		case VArr:
			a := under(x.X.Type()).(*types.Array)
			ex.safety(fr, "index", x.Pos(), pc, And(SLe(C64(0), idx), SLt(idx, C64(a.Len()))))
			fr.vals[x] = readPath(b, []Step{{IsIdx: true, Index: idx, ElemT: a.Elem()}})
		case VStr:
			ex.safety(fr, "index", x.Pos(), pc, And(SLe(C64(0), idx), SLt(idx, StrLen(b.T))))
			fr.vals[x] = VBV{StrAt(b.T, idx)}
		default:
			panic(unsupported(fmt.Sprintf("Index on %T", base)))
		}
	case *ssa.Convert:
		fr.vals[x] = ex.convert(fr, st, pc, ex.val(fr, st, x.X), x.X.Type(), x.Type())
	case *ssa.ChangeType:
		fr.vals[x] = ex.val(fr, st, x.X)
	case *ssa.ChangeInterface:
		fr.vals[x] = ex.val(fr, st, x.X)
	case *ssa.MakeInterface:
		fr.vals[x] = ex.makeIface(st, pc, ex.val(fr, st, x.X), x.X.Type())
	case *ssa.TypeAssert:
		fr.vals[x] = ex.typeAssert(fr, st, pc, x)
	case *ssa.Extract:
		fr.vals[x] = ex.val(fr, st, x.Tuple).(VTuple).F[x.Index]
	case *ssa.Slice:
		fr.vals[x] = ex.slice(fr, st, pc, x)
	case *ssa.MakeSlice:
		et := under(x.Type()).(*types.Slice).Elem()
		ln := ex.idx64(ex.val(fr, st, x.Len), x.Len.Type())
		cp := ex.idx64(ex.val(fr, st, x.Cap), x.Cap.Type())
		ex.safety(fr, "makeslice", x.Pos(), pc, And(SLe(C64(0), ln), SLe(ln, cp), SLe(cp, C64(int64(SizeBound)))))
		fr.vals[x] = ex.newSlice(st, pc, et, ln, cp)
	case *ssa.MakeMap:
		p := ex.alloc(st, pc)
		mt := under(x.Type()).(*types.Map)
		ex.mapInit(st, mt, p)
		fr.vals[x] = VMap{p}
	case *ssa.MakeChan:
		fr.vals[x] = VOpaque{ex.alloc(st, pc)}
	case *ssa.MakeClosure:
		var bs []Value
		for _, b := range x.Bindings {
			bs = append(bs, ex.val(fr, st, b))
		}
		fr.vals[x] = VFunc{Fn: x.Fn.(*ssa.Function), Binds: bs}
	case *ssa.Lookup:
		fr.vals[x] = ex.lookup(fr, st, pc, x)
	case *ssa.MapUpdate:
		ex.mapUpdate(fr, st, pc, x)
	case *ssa.Phi:
		var out Value
		ec := fr.edgeConds[x.Block()]
		for i := len(x.Edges) - 1; i >= 0; i-- {
			pred := x.Block().Preds[i]
			c, ok := ec[pred]
			if !ok {
				continue
			}
			v := ex.val(fr, st, x.Edges[i])
			if out == nil {
				out = v
			} else {
				out = iteValue(c, v, out)
			}
		}
		fr.vals[x] = out
	case *ssa.Call:
		r, npc := ex.call(fr, st, pc, x, x.Common())
		fr.vals[x] = r
		return npc
	case *ssa.Defer:
		var args []Value
		for _, a := range x.Call.Args {
			args = append(args, ex.val(fr, st, a))
		}
		var fnv Value
		if !x.Call.IsInvoke() {
			if _, ok := x.Call.Value.(*ssa.Builtin); !ok {
				fnv = ex.val(fr, st, x.Call.Value)
			}
		} else {
			fnv = ex.val(fr, st, x.Call.Value)
		}
		st.defers = append(st.defers, deferred{&x.Call, args, fnv})
	case *ssa.RunDefers:
		ds := st.defers
		st.defers = nil
		for i := len(ds) - 1; i >= 0; i-- {
			_, pc = ex.callWith(fr, st, pc, x, ds[i].call, ds[i].fnv, ds[i].args)
		}
		return pc
	case *ssa.Go:
		ex.goStmt(fr, st, pc, x)
	case *ssa.Select:
		fr.vals[x] = ex.selectStmt(fr, st, pc, x)
	case *ssa.Send:
		// unsynchronised channel: no effect on modelled state
	case *ssa.Range:
		fr.vals[x] = VOpaque{Fresh("rangeiter", BV64)}
	case *ssa.Next:
		fr.vals[x] = ex.next(fr, st, pc, x)
	case *ssa.SliceToArrayPointer, *ssa.MultiConvert:
		panic(unsupported(fmt.Sprintf("%T", instr)))
	default:
		panic(unsupported(fmt.Sprintf("instruction %T", instr)))
	}
	return pc
}

func (ex *Exec) idx64(v Value, t types.Type) *Term {
	b := v.(VBV).T
	if b.Sort.W == 64 {
		return b
	}
	if isSigned(t) {
		return SExt(b, 64)
	}
	return ZExt(b, 64)
}

func (ex *Exec) indexAddr(fr *Frame, st *State, pc *Term, x *ssa.IndexAddr) Value {
	base := ex.val(fr, st, x.X)
	idx := ex.idx64(ex.val(fr, st, x.Index), x.Index.Type())
	switch b := base.(type) {
	case VSlice:
		et := under(x.X.Type()).(*types.Slice).Elem()
		ex.safety(fr, "index", x.Pos(), pc, And(SLe(C64(0), idx), SLt(idx, b.Len)))
		return VPtr{LV: &LValue{Elem: true, T: et, P: b.Arr, Idx: Add(b.Off, idx)}}
	case VPtr: // pointer to array
		at := under(under(x.X.Type()).(*types.Pointer).Elem()).(*types.Array)
		ex.safety(fr, "index", x.Pos(), pc, And(SLe(C64(0), idx), SLt(idx, C64(at.Len()))))
		if b.LV != nil {
			return VPtr{LV: b.LV.extend(Step{IsIdx: true, Index: idx, ElemT: at.Elem()})}
		}
		ex.safety(fr, "nil", x.Pos(), pc, Not(Eq(b.T, C64(0))))
		return VPtr{LV: &LValue{Elem: true, T: at.Elem(), P: b.T, Idx: idx}}
	}
	panic(unsupported(fmt.Sprintf("IndexAddr on %T", base)))
}

func (ex *Exec) newSlice(st *State, pc *Term, et types.Type, ln, cp *Term) VSlice {
	p := ex.alloc(st, pc)
	for i, s := range leafSorts(et) {
		n := eCompName(et, i)
		rowS := ArrSort(BV64, s)
		c := st.comp(n, ArrSort(BV64, rowS))
		ex.noteWrite(n)
		st.setComp(n, Store(c, p, ConstArr(rowS, zeroLeaf(s))))
	}
	return VSlice{p, C64(0), ln, cp}
}

func (ex *Exec) slice(fr *Frame, st *State, pc *Term, x *ssa.Slice) Value {
	base := ex.val(fr, st, x.X)
	get := func(v ssa.Value, def *Term) *Term {
		if v == nil {
			return def
		}
		return ex.idx64(ex.val(fr, st, v), v.Type())
	}
	switch b := base.(type) {
	case VSlice:
		lo := get(x.Low, C64(0))
		hi := get(x.High, b.Len)
		limit := b.Cap
		if ex.strict {
			limit = b.Len
		}
		mx := b.Cap
		if x.Max != nil {
			mx = get(x.Max, b.Cap)
			ex.safety(fr, "slice", x.Pos(), pc, And(SLe(C64(0), lo), SLe(lo, hi), SLe(hi, mx), SLe(mx, b.Cap)))
		} else {
			ex.safety(fr, "slice", x.Pos(), pc, And(SLe(C64(0), lo), SLe(lo, hi), SLe(hi, limit)))
		}
		return VSlice{b.Arr, Add(b.Off, lo), Sub(hi, lo), Sub(mx, lo)}
	case VStr:
		lo := get(x.Low, C64(0))
		n := StrLen(b.T)
		hi := get(x.High, n)
		ex.safety(fr, "slice", x.Pos(), pc, And(SLe(C64(0), lo), SLe(lo, hi), SLe(hi, n)))
		return VStr{StrSub(b.T, lo, hi)}
	case VPtr: // *[N]T
		at := under(under(x.X.Type()).(*types.Pointer).Elem()).(*types.Array)
		n := C64(at.Len())
		lo := get(x.Low, C64(0))
		hi := get(x.High, n)
		if b.LV != nil {
			panic(unsupported("slicing an array that is not a whole heap object"))
		}
		ex.safety(fr, "nil", x.Pos(), pc, Not(Eq(b.T, C64(0))))
		ex.safety(fr, "slice", x.Pos(), pc, And(SLe(C64(0), lo), SLe(lo, hi), SLe(hi, n)))
		return VSlice{b.T, lo, Sub(hi, lo), Sub(n, lo)}
	}
	panic(unsupported(fmt.Sprintf("Slice on %T", base)))
}

func (ex *Exec) unop(fr *Frame, st *State, pc *Term, x *ssa.UnOp) Value {
	v := ex.val(fr, st, x.X)
	switch x.Op {
	case token.MUL: // load
		lv := ex.ptrLV(fr, st, pc, v, x.X.Type(), x.Pos())
		return ex.load(st, pc, lv)
	case token.NOT:
		return VBool{Not(v.(VBool).T)}
	case token.SUB:
		if isFloat(x.Type()) {
			return VOpaque{Fresh("float", BV64)}
		}
		return VBV{Neg(v.(VBV).T)}
	case token.XOR:
		return VBV{BNot(v.(VBV).T)}
	case token.ARROW:
		// receive: any value (unsynchronised shared channel)
		et := under(x.X.Type()).(*types.Chan).Elem()
		r := freshValue(et, "recv")
		ex.assumeWF(st, pc, r)
		if x.CommaOk {
			return VTuple{[]Value{r, VBool{Fresh("recvok", BoolSort)}}}
		}
		return r
	}
	panic(unsupported("unop " + x.Op.String()))
}

func (ex *Exec) binop(fr *Frame, st *State, pc *Term, op token.Token, a, b Value, ta, tb, tr types.Type, pos token.Pos) Value {
	if isFloat(ta) {
		switch op {
		case token.EQL, token.NEQ, token.LSS, token.LEQ, token.GTR, token.GEQ:
			return VBool{Fresh("floatcmp", BoolSort)}
		}
		return VOpaque{Fresh("float", BV64)}
	}
	switch x := a.(type) {
	case VBV:
		y := b.(VBV)
		signed := isSigned(ta)
		switch op {
		case token.ADD:
			return VBV{Add(x.T, y.T)}
		case token.SUB:
			return VBV{Sub(x.T, y.T)}
		case token.MUL:
			return VBV{Mul(x.T, y.T)}
		case token.QUO, token.REM:
			ex.safety(fr, "div", pos, pc, Not(Eq(y.T, Const(0, y.T.Sort.W))))
			if signed {
				if op == token.QUO {
					return VBV{SDiv(x.T, y.T)}
				}
				return VBV{SRem(x.T, y.T)}
			}
			if op == token.QUO {
				return VBV{UDiv(x.T, y.T)}
			}
			return VBV{URem(x.T, y.T)}
		case token.AND:
			return VBV{BAnd(x.T, y.T)}
		case token.OR:
			return VBV{BOr(x.T, y.T)}
		case token.XOR:
			return VBV{BXor(x.T, y.T)}
		case token.AND_NOT:
			return VBV{BAnd(x.T, BNot(y.T))}
		case token.SHL, token.SHR:
			w := x.T.Sort.W
			// shift count: unsigned (or signed: negative panics)
			cnt := y.T
			if isSigned(tb) {
				ex.safety(fr, "shift", pos, pc, SLe(Const(0, cnt.Sort.W), cnt))
			}
			var c *Term
			var big *Term
			if cnt.Sort.W > w {
				big = Not(ULt(cnt, Const(uint64(w), cnt.Sort.W)))
				c = Extract(w-1, 0, cnt)
			} else {
				c = ZExt(cnt, w)
				if cnt.Sort.W == w || (uint64(1)<<uint(cnt.Sort.W)) > uint64(w) {
					big = Not(ULt(c, Const(uint64(w), w)))
				} else {
					big = False
				}
			}
			var r *Term
			switch {
			case op == token.SHL:
				r = Ite(big, Const(0, w), Shl(x.T, c))
			case signed:
				r = AShr(x.T, Ite(big, Const(uint64(w-1), w), c))
			default:
				r = Ite(big, Const(0, w), LShr(x.T, c))
			}
			return VBV{r}
		case token.EQL:
			return VBool{Eq(x.T, y.T)}
		case token.NEQ:
			return VBool{Not(Eq(x.T, y.T))}
		case token.LSS:
			if signed {
				return VBool{SLt(x.T, y.T)}
			}
			return VBool{ULt(x.T, y.T)}
		case token.LEQ:
			if signed {
				return VBool{SLe(x.T, y.T)}
			}
			return VBool{ULe(x.T, y.T)}
		case token.GTR:
			if signed {
				return VBool{SLt(y.T, x.T)}
			}
			return VBool{ULt(y.T, x.T)}
		case token.GEQ:
			if signed {
				return VBool{SLe(y.T, x.T)}
			}
			return VBool{ULe(y.T, x.T)}
		}
	case VBool:
		y := b.(VBool)
		switch op {
		case token.EQL:
			return VBool{Eq(x.T, y.T)}
		case token.NEQ:
			return VBool{Not(Eq(x.T, y.T))}
		case token.AND, token.LAND:
			return VBool{And(x.T, y.T)}
		case token.OR, token.LOR:
			return VBool{Or(x.T, y.T)}
		}
	case VStr:
		y := b.(VStr)
		switch op {
		case token.ADD:
			return VStr{StrConcat(x.T, y.T)}
		case token.EQL:
			return VBool{Eq(x.T, y.T)}
		case token.NEQ:
			return VBool{Not(Eq(x.T, y.T))}
		case token.LSS, token.LEQ, token.GTR, token.GEQ:
			return VBool{Fresh("strcmp", BoolSort)}
		}
	}
	if op == token.EQL || op == token.NEQ {
		eq := ex.valueEq(a, b)
		if op == token.NEQ {
			eq = Not(eq)
		}
		return VBool{eq}
	}
	panic(unsupported(fmt.Sprintf("binop %s on %T", op, a)))
}

func (ex *Exec) valueEq(a, b Value) *Term {
	switch x := a.(type) {
	case VPtr:
		y := b.(VPtr)
		if x.T != nil && y.T != nil {
			return Eq(x.T, y.T)
		}
		if x.LV != nil && y.LV != nil {
			if x.LV.String() == y.LV.String() {
				return True
			}
			panic(unsupported("comparison of interior pointers"))
		}
		// interior pointer vs object pointer: equal only if nil... interior is non-nil
		var t *Term
		if x.T != nil {
			t = x.T
		} else {
			t = y.T
		}
		if t.IsConst() && t.Val == 0 {
			return False
		}
		panic(unsupported("comparison of interior pointer with pointer"))
	case VIface:
		y := b.(VIface)
		// comparison with the nil interface: decided by the dynamic type alone
		if y.Tag.IsConst() && y.Tag.Val == 0 {
			return Eq(x.Tag, C64(0))
		}
		if x.Tag.IsConst() && x.Tag.Val == 0 {
			return Eq(y.Tag, C64(0))
		}
		return And(Eq(x.Tag, y.Tag), Eq(x.Pay, y.Pay))
	case VSlice: // only against nil
		y := b.(VSlice)
		if y.Arr.IsConst() && y.Arr.Val == 0 {
			return Eq(x.Arr, C64(0))
		}
		if x.Arr.IsConst() && x.Arr.Val == 0 {
			return Eq(y.Arr, C64(0))
		}
	case VMap:
		return Eq(x.T, b.(VMap).T)
	case VOpaque:
		if y, ok := b.(VOpaque); ok {
			return Eq(x.T, y.T)
		}
		return Eq(x.T, toLeaves(b)[0])
	case VFunc:
		return Eq(toLeaves(a)[0], toLeaves(b)[0])
	case VStruct:
		y := b.(VStruct)
		var cs []*Term
		for i := range x.F {
			cs = append(cs, ex.valueEq2(x.F[i], y.F[i]))
		}
		return And(cs...)
	case VArr:
		// Go array equality: element-wise over the array's own index range
		y := b.(VArr)
		var cs []*Term
		for i := range x.Leaves {
			if x.N > 0 && x.N <= 64 {
				for k := int64(0); k < x.N; k++ {
					cs = append(cs, Eq(Select(x.Leaves[i], C64(k)), Select(y.Leaves[i], C64(k))))
				}
			} else {
				k := Bound("k", BV64)
				cs = append(cs, Forall([]*Term{k}, Implies(And(SLe(C64(0), k), SLt(k, C64(x.N))), Eq(Select(x.Leaves[i], k), Select(y.Leaves[i], k)))))
			}
		}
		return And(cs...)
	}
	panic(unsupported(fmt.Sprintf("equality on %T", a)))
}

func (ex *Exec) valueEq2(a, b Value) *Term {
	switch x := a.(type) {
	case VBV:
		return Eq(x.T, b.(VBV).T)
	case VBool:
		return Eq(x.T, b.(VBool).T)
	case VStr:
		return Eq(x.T, b.(VStr).T)
	}
	return ex.valueEq(a, b)
}

func (ex *Exec) convert(fr *Frame, st *State, pc *Term, v Value, from, to types.Type) Value {
	uf, ut := under(from), under(to)
	switch x := v.(type) {
	case VBV:
		if tb, ok := ut.(*types.Basic); ok {
			if tb.Info()&types.IsInteger != 0 {
				return VBV{convInt(x.T, from, to)}
			}
			if tb.Info()&types.IsFloat != 0 {
				w := x.T.Sort.W
				t := x.T
				if w < 64 {
					if isSigned(from) {
						t = SExt(t, 64)
					} else {
						t = ZExt(t, 64)
					}
				}
				return VOpaque{App("int2float", BV64, t)}
			}
			if tb.Info()&types.IsString != 0 {
				return VStr{App("gostr.fromrune", StrSort, ZExt(x.T, 64))}
			}
		}
		if tb, ok := ut.(*types.Basic); ok && tb.Kind() == types.UnsafePointer {
			return VOpaque{ZExt(x.T, 64)}
		}
	case VOpaque:
		if tb, ok := ut.(*types.Basic); ok {
			if tb.Info()&types.IsInteger != 0 {
				w, _ := intWidth(tb)
				// float -> int : uninterpreted, except math.Pow10(n) for 0 <= n <= 9, which is the
				// exactly representable 10^n and converts to that integer
				un := App(fmt.Sprintf("float2int%d", w), BV(w), x.T)
				if x.T.Op == "app" && x.T.Name == "pow10" && w >= 32 {
					n := x.T.Args[0]
					r := un
					p10 := uint64(1000000000)
					for k := int64(9); k >= 0; k-- {
						r = Ite(Eq(n, C64(k)), Const(p10, w), r)
						p10 /= 10
					}
					return VBV{r}
				}
				return VBV{un}
			}
			return VOpaque{x.T}
		}
	case VStr:
		if sl, ok := ut.(*types.Slice); ok {
			if eb, ok := under(sl.Elem()).(*types.Basic); ok && eb.Kind() == types.Uint8 {
				p := ex.alloc(st, pc)
				n := eCompName(sl.Elem(), 0)
				c := st.comp(n, ArrSort(BV64, ArrSort(BV64, BV8)))
				ex.noteWrite(n)
				st.setComp(n, Store(c, p, StrRow(x.T)))
				ln := StrLen(x.T)
				ex.assume(pc, And(SLe(C64(0), ln), SLe(ln, C64(int64(SizeBound)))))
				return VSlice{p, C64(0), ln, ln}
			}
		}
		if _, ok := ut.(*types.Basic); ok {
			return v
		}
	case VSlice:
		if tb, ok := ut.(*types.Basic); ok && tb.Info()&types.IsString != 0 {
			et := uf.(*types.Slice).Elem()
			row := Select(st.comp(eCompName(et, 0), ArrSort(BV64, ArrSort(BV64, BV8))), x.Arr)
			return VStr{StrFromBytes(row, x.Off, x.Len)}
		}
		if _, ok := ut.(*types.Slice); ok {
			return v
		}
	case VPtr:
		return v
	}
	panic(unsupported(fmt.Sprintf("convert %s -> %s (%T)", from, to, v)))
}

// ---------------------------------------------------------------- interfaces

var typeTags = map[string]uint64{}
var tagTypes = map[uint64]types.Type{}

func typeTag(t types.Type) uint64 {
	k := types.TypeString(t, nil)
	if id, ok := typeTags[k]; ok {
		return id
	}
	id := uint64(len(typeTags) + 1)
	typeTags[k] = id
	tagTypes[id] = t
	return id
}

func directPayload(t types.Type) bool {
	switch u := under(t).(type) {
	case *types.Pointer, *types.Map, *types.Chan, *types.Signature:
		return true
	case *types.Basic:
		return u.Info()&(types.IsInteger|types.IsBoolean) != 0
	}
	return false
}

func (ex *Exec) makeIface(st *State, pc *Term, v Value, t types.Type) Value {
	if _, ok := under(t).(*types.Interface); ok {
		return v
	}
	tag := Const(typeTag(t), 64)
	if directPayload(t) {
		switch x := v.(type) {
		case VBV:
			if isSigned(t) {
				return VIface{tag, SExt(x.T, 64)}
			}
			return VIface{tag, ZExt(x.T, 64)}
		case VBool:
			return VIface{tag, Ite(x.T, C64(1), C64(0))}
		default:
			return VIface{tag, toLeaves(v)[0]}
		}
	}
	p := ex.alloc(st, pc)
	ls := toLeaves(v)
	for i, l := range ls {
		n := bCompName(t, i)
		c := st.comp(n, ArrSort(BV64, l.Sort))
		ex.noteWrite(n)
		st.setComp(n, Store(c, p, l))
	}
	return VIface{tag, p}
}

func (ex *Exec) unbox(st *State, pc *Term, pay *Term, t types.Type) Value {
	if directPayload(t) {
		switch u := under(t).(type) {
		case *types.Basic:
			if u.Info()&types.IsBoolean != 0 {
				return VBool{Not(Eq(pay, C64(0)))}
			}
			w, _ := intWidth(u)
			return VBV{Extract(w-1, 0, pay)}
		}
		return fromLeaves(t, []*Term{pay})
	}
	ss := leafSorts(t)
	ls := make([]*Term, len(ss))
	for i, s := range ss {
		ls[i] = Select(st.comp(bCompName(t, i), ArrSort(BV64, s)), pay)
	}
	v := fromLeaves(t, ls)
	ex.assumeWF(st, pc, v)
	return v
}

func (ex *Exec) typeAssert(fr *Frame, st *State, pc *Term, x *ssa.TypeAssert) Value {
	iv := ex.val(fr, st, x.X).(VIface)
	if _, isIface := under(x.AssertedType).(*types.Interface); isIface {
		ok := Fresh("ifaceassert", BoolSort)
		ex.assume(pc, Implies(ok, Not(Eq(iv.Tag, C64(0)))))
		if x.CommaOk {
			return VTuple{[]Value{VIface{Ite(ok, iv.Tag, C64(0)), Ite(ok, iv.Pay, C64(0))}, VBool{ok}}}
		}
		ex.safety(fr, "type", x.Pos(), pc, ok)
		return iv
	}
	ok := Eq(iv.Tag, Const(typeTag(x.AssertedType), 64))
	v := ex.unbox(st, pc, iv.Pay, x.AssertedType)
	if x.CommaOk {
		z := zeroValue(x.AssertedType)
		return VTuple{[]Value{iteValue(ok, v, z), VBool{ok}}}
	}
	ex.safety(fr, "type", x.Pos(), pc, ok)
	return v
}

// ---------------------------------------------------------------- maps

// keyTerm: the leaves of a map key (strings, integers, interfaces, structs of those)
func keyTerm(v Value) []*Term {
	return toLeaves(v)
}

func selN(row *Term, ks []*Term) *Term {
	for _, k := range ks {
		row = Select(row, k)
	}
	return row
}

func storeN(row *Term, ks []*Term, v *Term) *Term {
	if len(ks) == 1 {
		return Store(row, ks[0], v)
	}
	return Store(row, ks[0], storeN(Select(row, ks[0]), ks[1:], v))
}

func nestSort(ks []*Sort, v *Sort) *Sort {
	for i := len(ks) - 1; i >= 0; i-- {
		v = ArrSort(ks[i], v)
	}
	return v
}

func mapComps(mt *types.Map) (string, *Sort, []string, []*Sort) {
	ks := leafSorts(mt.Key())
	key := typeKey(mt)
	vs := leafSorts(mt.Elem())
	var names []string
	var sorts []*Sort
	for i, s := range vs {
		names = append(names, fmt.Sprintf("M|%s|v%d", key, i))
		sorts = append(sorts, ArrSort(BV64, nestSort(ks, s)))
	}
	return fmt.Sprintf("M|%s|present", key), ArrSort(BV64, nestSort(ks, BoolSort)), names, sorts
}

func leafOf(s *Sort) *Sort {
	for s.IsArray() {
		s = s.Elem
	}
	return s
}

func (ex *Exec) mapInit(st *State, mt *types.Map, p *Term) {
	pn, ps, vn, vs := mapComps(mt)
	ex.noteWrite(pn)
	st.setComp(pn, Store(st.comp(pn, ps), p, zeroLeaf(ps.Elem)))
	for i := range vn {
		ex.noteWrite(vn[i])
		st.setComp(vn[i], Store(st.comp(vn[i], vs[i]), p, zeroLeaf(vs[i].Elem)))
	}
}

func (ex *Exec) mapGet(st *State, pc *Term, mt *types.Map, m *Term, k []*Term) (Value, *Term) {
	pn, ps, vn, vs := mapComps(mt)
	present := And(Not(Eq(m, C64(0))), selN(Select(st.comp(pn, ps), m), k))
	ls := make([]*Term, len(vn))
	for i := range vn {
		raw := selN(Select(st.comp(vn[i], vs[i]), m), k)
		ls[i] = Ite(present, raw, zeroLeaf(leafOf(vs[i].Elem)))
	}
	v := fromLeaves(mt.Elem(), ls)
	ex.assumeWF(st, pc, v)
	return v, present
}

func (ex *Exec) lookup(fr *Frame, st *State, pc *Term, x *ssa.Lookup) Value {
	base := ex.val(fr, st, x.X)
	switch b := base.(type) {
	case VMap:
		mt := under(x.X.Type()).(*types.Map)
		v, present := ex.mapGet(st, pc, mt, b.T, keyTerm(ex.val(fr, st, x.Index)))
		if x.CommaOk {
			return VTuple{[]Value{v, VBool{present}}}
		}
		return v
	case VStr:
		idx := ex.idx64(ex.val(fr, st, x.Index), x.Index.Type())
		ex.safety(fr, "index", x.Pos(), pc, And(SLe(C64(0), idx), SLt(idx, StrLen(b.T))))
		return VBV{StrAt(b.T, idx)}
	}
	panic(unsupported(fmt.Sprintf("Lookup on %T", base)))
}

func (ex *Exec) mapSet(st *State, mt *types.Map, m *Term, k []*Term, v Value) {
	pn, ps, vn, vs := mapComps(mt)
	pc0 := st.comp(pn, ps)
	ex.noteWrite(pn)
	st.setComp(pn, Store(pc0, m, storeN(Select(pc0, m), k, True)))
	ls := toLeaves(v)
	for i := range vn {
		c := st.comp(vn[i], vs[i])
		ex.noteWrite(vn[i])
		st.setComp(vn[i], Store(c, m, storeN(Select(c, m), k, ls[i])))
	}
}

func (ex *Exec) mapUpdate(fr *Frame, st *State, pc *Term, x *ssa.MapUpdate) {
	m := ex.val(fr, st, x.Map).(VMap)
	mt := under(x.Map.Type()).(*types.Map)
	ex.safety(fr, "nilmap", x.Pos(), pc, Not(Eq(m.T, C64(0))))
	ex.mapSet(st, mt, m.T, keyTerm(ex.val(fr, st, x.Key)), ex.val(fr, st, x.Value))
}

func (ex *Exec) next(fr *Frame, st *State, pc *Term, x *ssa.Next) Value {
	if x.IsString {
		panic(unsupported("range over string"))
	}
	r := x.Iter.(*ssa.Range)
	mt := under(r.X.Type()).(*types.Map)
	m := ex.val(fr, st, r.X).(VMap)
	ok := Fresh("mapnext", BoolSort)
	k := freshValue(mt.Key(), "mapkey")
	v, present := ex.mapGet(st, pc, mt, m.T, keyTerm(k))
	ex.assume(pc, Implies(ok, present))
	return VTuple{[]Value{VBool{ok}, k, v}}
}

// ---------------------------------------------------------------- misc

func (ex *Exec) doPanic(fr *Frame, st *State, pc *Term, x *ssa.Panic) {
	if fr.spec {
		return
	}
	c := ex.curContract
	if c != nil && fr.top && c.PanicsWhen != nil {
		cond := ex.evalClause(fr, st, pc, c.PanicsWhen, nil)
		ex.oblige(fr, "panics-when", ex.srcText(x.Pos()), x.Pos(), pc, cond, c.PanicsWhen.Props)
		return
	}
	ex.safety(fr, "panic", x.Pos(), pc, False)
}

func (ex *Exec) goStmt(fr *Frame, st *State, pc *Term, x *ssa.Go) {
	// the spawned function runs on its own; only its precondition is checked here
	cc := &x.Call
	if c := ex.curContract; c != nil && c.GoBodies && !fr.spec {
		ex.goBody(fr, st, pc, x)
	}
	if fn := cc.StaticCallee(); fn != nil {
		if c := ex.V.contractFor(fn); c != nil {
			var args []Value
			for _, a := range cc.Args {
				args = append(args, ex.val(fr, st, a))
			}
			ex.checkRequires(fr, st, pc, fn, c, args, nil, x.Pos())
		}
		return
	}
	if mc, ok := cc.Value.(*ssa.MakeClosure); ok {
		fn := mc.Fn.(*ssa.Function)
		if c := ex.V.contractFor(fn); c != nil {
			var binds []Value
			for _, b := range mc.Bindings {
				binds = append(binds, ex.val(fr, st, b))
			}
			ex.checkRequires(fr, st, pc, fn, c, nil, binds, x.Pos())
		}
	}
}

// goBody ("go-bodies" in the contract of the function under verification): the started function has no
// contract of its own, so its body is executed once, on a copy of the state at the go statement, for its
// safety obligations (nil dereferences of what it captured, ...). This checks the goroutine as if it began
// to run at once and alone; what it does to shared state is dropped. A body outside the supported subset
// (channel operations, select) is not checked and is listed as such.
func (ex *Exec) goBody(fr *Frame, st *State, pc *Term, x *ssa.Go) {
	cc := &x.Call
	var fn *ssa.Function
	var args, binds []Value
	if mc, ok := cc.Value.(*ssa.MakeClosure); ok {
		fn = mc.Fn.(*ssa.Function)
		for _, b := range mc.Bindings {
			binds = append(binds, ex.val(fr, st, b))
		}
	} else if f := cc.StaticCallee(); f != nil && !cc.IsInvoke() {
		fn = f
	}
	if fn == nil || len(fn.Blocks) == 0 || !ex.V.inRepo(fn) || ex.V.contractFor(fn) != nil {
		return
	}
	for _, a := range cc.Args {
		args = append(args, ex.val(fr, st, a))
	}
	where := ex.V.fset.Position(x.Pos())
	nObl := len(ex.obls)
	func() {
		defer func() {
			if r := recover(); r != nil {
				if u, ok := r.(Unsupported); ok {
					ex.obls = ex.obls[:nObl] // a partly executed body proves nothing
					ex.V.assumedAt[fmt.Sprintf("goroutine started at %s:%d (%s) not checked: %s", filepath.Base(where.Filename), where.Line, fn.Name(), u.Msg)] = true
					return
				}
				panic(r)
			}
		}()
		ex.inline(fr, st.clone(), pc, fn, args, binds, false, x.Pos())
		ex.V.assumedAt[fmt.Sprintf("goroutine started at %s:%d (%s): body checked in the state at the go statement, as if it ran at once and alone", filepath.Base(where.Filename), where.Line, fn.Name())] = true
	}()
}

func (ex *Exec) selectStmt(fr *Frame, st *State, pc *Term, x *ssa.Select) Value {
	n := len(x.States)
	idx := Fresh("select.idx", BV64)
	lo := C64(0)
	if !x.Blocking {
		lo = C64(-1)
	}
	ex.assume(pc, And(SLe(lo, idx), SLt(idx, C64(int64(n)))))
	fs := []Value{VBV{idx}, VBool{Fresh("select.ok", BoolSort)}}
	for _, s := range x.States {
		if s.Dir == types.RecvOnly {
			et := under(s.Chan.Type()).(*types.Chan).Elem()
			r := freshValue(et, "select.recv")
			ex.assumeWF(st, pc, r)
			fs = append(fs, r)
		}
	}
	return VTuple{fs}
}

func shortFn(fn *ssa.Function) string {
	s := fn.String()
	s = strings.ReplaceAll(s, "github.com/free5gc/chf/", "")
	return s
}
