package main

// Replay of solver models on the real code through `go test -overlay` (nothing is written to /repo).

import (
	"bytes"
	"context"
	"encoding/json"
	"fmt"
	"go/types"
	"os"
	"os/exec"
	"path/filepath"
	"strconv"
	"strings"
	"time"

	"golang.org/x/tools/go/ssa"
)

const replayElems = 48

// modelTerms: extra terms whose values are requested from the solver (slice elements of parameters)
func modelTerms(res *FuncResult) map[string]*Term {
	out := map[string]*Term{}
	if res.Fn == nil {
		return out
	}
	for i, p := range res.Fn.Params {
		name := res.Params[i]
		sl, ok := under(p.Type()).(*types.Slice)
		if !ok {
			continue
		}
		eb, ok := under(sl.Elem()).(*types.Basic)
		if !ok || eb.Info()&types.IsInteger == 0 {
			continue
		}
		w, _ := intWidth(eb)
		arr := Var(fmt.Sprintf("in$%s.0", name), BV64)
		off := Var(fmt.Sprintf("in$%s.1", name), BV64)
		comp := Var("init$"+eCompName(sl.Elem(), 0), ArrSort(BV64, ArrSort(BV64, BV(w))))
		for k := 0; k < replayElems; k++ {
			out[fmt.Sprintf("elt$%s$%d", name, k)] = Select(Select(comp, arr), Add(off, C64(int64(k))))
		}
	}
	return out
}

func parseBV(s string) (uint64, bool) {
	switch {
	case strings.HasPrefix(s, "#x"):
		v, err := strconv.ParseUint(s[2:], 16, 64)
		return v, err == nil
	case strings.HasPrefix(s, "#b"):
		v, err := strconv.ParseUint(s[2:], 2, 64)
		return v, err == nil
	case s == "true":
		return 1, true
	case s == "false":
		return 0, true
	}
	return 0, false
}

type replayGen struct {
	pkg   *types.Package
	model map[string]string
	ok    bool
	why   string
}

func (g *replayGen) leaf(name string, idx int) uint64 {
	v, ok := g.model[fmt.Sprintf("%s.%d", name, idx)]
	if !ok {
		return 0
	}
	x, _ := parseBV(v)
	return x
}

func (g *replayGen) qual(p *types.Package) string {
	if p == g.pkg {
		return ""
	}
	g.ok = false
	g.why = "type from another package: " + p.Path()
	return p.Name()
}

// literal builds a Go expression for the value of type t whose leaves start at index *idx of `name`.
func (g *replayGen) literal(t types.Type, name string, idx *int, eltName string) string {
	ts := types.TypeString(t, g.qual)
	switch u := under(t).(type) {
	case *types.Basic:
		v := g.leaf(name, *idx)
		*idx++
		switch {
		case u.Info()&types.IsBoolean != 0:
			return fmt.Sprintf("%s(%v)", ts, v != 0)
		case u.Info()&types.IsInteger != 0:
			w, signed := intWidth(u)
			if signed {
				return fmt.Sprintf("%s(%d)", ts, sx(v&mask(w), w))
			}
			return fmt.Sprintf("%s(%d)", ts, v&mask(w))
		case u.Info()&types.IsString != 0:
			return ts + `("")`
		}
	case *types.Slice:
		ln := sx(g.leaf(name, *idx+2), 64)
		arr := g.leaf(name, *idx)
		*idx += 4
		eb, isInt := under(u.Elem()).(*types.Basic)
		if arr == 0 && ln == 0 {
			return ts + "(nil)"
		}
		if !isInt || eb.Info()&types.IsInteger == 0 || eltName == "" {
			g.ok = false
			g.why = "slice of non-integer elements"
			return ts + "(nil)"
		}
		if ln < 0 || ln > 1<<16 {
			g.ok = false
			g.why = fmt.Sprintf("model demands a slice of length %d", ln)
			return ts + "(nil)"
		}
		var sb strings.Builder
		sb.WriteString("func() " + ts + " { s := make(" + ts + ", " + strconv.FormatInt(ln, 10) + ");")
		for k := 0; k < replayElems && int64(k) < ln; k++ {
			if v, ok := g.model[fmt.Sprintf("elt$%s$%d", eltName, k)]; ok {
				x, _ := parseBV(v)
				if x != 0 {
					fmt.Fprintf(&sb, " s[%d] = %d;", k, x)
				}
			}
		}
		sb.WriteString(" return s }()")
		return sb.String()
	case *types.Struct:
		var parts []string
		for i := 0; i < u.NumFields(); i++ {
			parts = append(parts, u.Field(i).Name()+": "+g.literal(u.Field(i).Type(), name, idx, ""))
		}
		return ts + "{" + strings.Join(parts, ", ") + "}"
	case *types.Pointer:
		*idx++
		return "nil"
	case *types.Interface:
		*idx += 2
		return "nil"
	}
	g.ok = false
	g.why = "unsupported parameter type " + ts
	*idx += len(leafSorts(t))
	return "nil"
}

// tryReplay runs the real function on the model's input; returns a one-line outcome.
func tryReplay(v *Verifier, res *FuncResult, o *Obligation, dir string) string {
	fn := res.Fn
	if fn == nil || fn.Pkg == nil || len(fn.FreeVars) > 0 {
		return ""
	}
	g := &replayGen{pkg: fn.Pkg.Pkg, model: o.Model, ok: true}
	var args []string
	for i, p := range fn.Params {
		idx := 0
		args = append(args, g.literal(p.Type(), "in$"+res.Params[i], &idx, res.Params[i]))
	}
	if !g.ok {
		return "no replay: " + g.why
	}
	var call string
	if fn.Signature.Recv() != nil {
		call = fmt.Sprintf("(%s).%s(%s)", args[0], fn.Name(), strings.Join(args[1:], ", "))
	} else {
		call = fmt.Sprintf("%s(%s)", fn.Name(), strings.Join(args, ", "))
	}
	nres := fn.Signature.Results().Len()
	var sb strings.Builder
	fmt.Fprintf(&sb, "package %s\n\nimport (\n\t\"fmt\"\n\t\"testing\"\n)\n\n", fn.Pkg.Pkg.Name())
	sb.WriteString("func TestVerifReplay(t *testing.T) {\n\tdefer func() {\n\t\tif r := recover(); r != nil {\n\t\t\tfmt.Println(\"REPLAY-PANIC:\", r)\n\t\t}\n\t}()\n")
	var rn []string
	for i := 0; i < nres; i++ {
		rn = append(rn, fmt.Sprintf("r%d", i))
	}
	for i, a := range args {
		fmt.Fprintf(&sb, "\ta%d := %s\n\t_ = a%d\n", i, a, i)
	}
	// call through the variables so that clause evaluation sees the same values
	var av []string
	for i := range args {
		av = append(av, fmt.Sprintf("a%d", i))
	}
	if fn.Signature.Recv() != nil {
		call = fmt.Sprintf("a0.%s(%s)", fn.Name(), strings.Join(av[1:], ", "))
	} else {
		call = fmt.Sprintf("%s(%s)", fn.Name(), strings.Join(av, ", "))
	}
	if nres > 0 {
		fmt.Fprintf(&sb, "\t%s := %s\n", strings.Join(rn, ", "), call)
		for _, r := range rn {
			fmt.Fprintf(&sb, "\t_ = %s\n", r)
		}
	} else {
		fmt.Fprintf(&sb, "\t%s\n", call)
	}
	sb.WriteString("\tfmt.Printf(\"REPLAY-RETURNED")
	for range rn {
		sb.WriteString(" %#v")
	}
	sb.WriteString("\\n\"")
	for _, r := range rn {
		sb.WriteString(", " + r)
	}
	sb.WriteString(")\n")
	// evaluate the violated post-condition with the executable specification
	if o.Kind == "post" {
		if cl := findClause(res.Contract, o); cl != nil && clauseExecutable(cl) {
			var cargs []string
			okc := true
			for _, p := range cl.Params {
				switch p.Kind {
				case "param", "entry":
					cargs = append(cargs, fmt.Sprintf("a%d", p.Index))
				case "result":
					cargs = append(cargs, fmt.Sprintf("r%d", p.Index))
				default:
					okc = false
				}
			}
			if okc {
				fmt.Fprintf(&sb, "\tfmt.Println(\"REPLAY-CLAUSE\", %s(%s))\n", cl.FnName, strings.Join(cargs, ", "))
			}
		}
	}
	sb.WriteString("}\n")
	pkgDir := filepath.Dir(v.fset.Position(fn.Pos()).Filename)
	// a self-contained variant (no generated clause functions) is kept in the replay file for ./check --replay
	var plain []string
	for _, l := range strings.Split(sb.String(), "\n") {
		if !strings.Contains(l, "REPLAY-CLAUSE") {
			plain = append(plain, l)
		}
	}
	o.ReplaySrc, o.ReplayDir = strings.Join(plain, "\n"), pkgDir
	testPath := filepath.Join(dir, "replay_test.go")
	os.WriteFile(testPath, []byte(sb.String()), 0o644)
	ov := map[string]map[string]string{"Replace": {filepath.Join(pkgDir, "zz_verif_replay_test.go"): testPath}}
	for p, src := range v.genFiles {
		gp := filepath.Join(dir, "gen_"+mangle(p)+".go")
		os.WriteFile(gp, []byte(src), 0o644)
		ov["Replace"][p] = gp
	}
	ovData, _ := json.Marshal(ov)
	ovPath := filepath.Join(dir, "overlay.json")
	os.WriteFile(ovPath, ovData, 0o644)
	ctx, cancel := context.WithTimeout(context.Background(), 90*time.Second)
	defer cancel()
	cmd := exec.CommandContext(ctx, "go", "test", "-tags", "verif", "-overlay", ovPath, "-vet=off", "-count=1", "-timeout", "60s", "-run", "^TestVerifReplay$", "-v", ".")
	cmd.Dir = pkgDir
	cmd.Env = goEnv()
	var out bytes.Buffer
	cmd.Stdout = &out
	cmd.Stderr = &out
	cmd.Run()
	text := out.String()
	o.Note += "\nreplay input: " + strings.Join(args, " ; ") + "\nreplay output:\n" + truncate(text, 1500)
	var line string
	for _, l := range strings.Split(text, "\n") {
		if strings.HasPrefix(l, "REPLAY-") {
			line += l + "; "
		}
	}
	switch {
	case strings.Contains(text, "REPLAY-PANIC") && strings.HasPrefix(o.Kind, "safety"):
		return "reproduced: the real function panics on the model's input: " + line
	case strings.Contains(text, "REPLAY-CLAUSE false"):
		return "reproduced: the post-condition evaluates to false on the real function's result: " + line
	case strings.Contains(text, "REPLAY-PANIC"):
		return "reproduced: the real function panics on the model's input: " + line
	case line != "":
		return "not reproduced (" + line + ")"
	}
	return "no replay: test did not run: " + truncate(text, 300)
}

func findClause(c *Contract, o *Obligation) *Clause {
	for _, e := range c.Ensures {
		if strings.Contains(o.Name, "#post:"+truncate(strings.Join(strings.Fields(e.Text), " "), 90)) || strings.Contains(o.Name, strings.Join(strings.Fields(e.Text), " ")) {
			return e
		}
	}
	for _, e := range c.Ensures {
		t := strings.Join(strings.Fields(e.Text), " ")
		if len(t) > 90 {
			t = t[:90]
		}
		if strings.Contains(o.Name, t) {
			return e
		}
	}
	return nil
}

// clauses with unbounded quantifiers or old() cannot be evaluated by running them
func clauseExecutable(cl *Clause) bool {
	if strings.Contains(cl.GoExpr, "verif_forall(") || strings.Contains(cl.GoExpr, "verif_old") {
		return false
	}
	return true
}

var _ = ssa.NaiveForm

// cmdReplay: ./check --replay <file> - shows the recorded violation and, when the replay file holds a
// generated test, runs it again on the current tree (go test -overlay, nothing is written to the repository).
func cmdReplay(path string) {
	data, err := os.ReadFile(path)
	if err != nil {
		fmt.Println("cannot read", path, err)
		os.Exit(2)
	}
	var m map[string]interface{}
	if err := json.Unmarshal(data, &m); err != nil {
		fmt.Println(string(data))
		return
	}
	for _, k := range []string{"property", "obligation", "kind", "function", "position", "status", "solver", "outcome", "note"} {
		if v, ok := m[k]; ok && v != nil && v != "" {
			fmt.Printf("%-10s %v\n", k+":", v)
		}
	}
	src, _ := m["replay_test_go"].(string)
	dir, _ := m["replay_pkg_dir"].(string)
	if src == "" || dir == "" {
		fmt.Println("replay:    no executable replay recorded (the solver gave no model, or no concrete input could be built from it)")
		return
	}
	tmp, _ := os.MkdirTemp("/var/tmp", "govcreplay")
	defer os.RemoveAll(tmp)
	testPath := filepath.Join(tmp, "replay_test.go")
	os.WriteFile(testPath, []byte(src), 0o644)
	ov, _ := json.Marshal(map[string]map[string]string{"Replace": {filepath.Join(dir, "zz_verif_replay_test.go"): testPath}})
	ovPath := filepath.Join(tmp, "overlay.json")
	os.WriteFile(ovPath, ov, 0o644)
	ctx, cancel := context.WithTimeout(context.Background(), 120*time.Second)
	defer cancel()
	cmd := exec.CommandContext(ctx, "go", "test", "-tags", "verif", "-overlay", ovPath, "-vet=off", "-count=1", "-timeout", "60s", "-run", "^TestVerifReplay$", "-v", ".")
	cmd.Dir = dir
	cmd.Env = goEnv()
	out, _ := cmd.CombinedOutput()
	fmt.Println("replay on the current tree (" + dir + "):")
	for _, l := range strings.Split(string(out), "\n") {
		if strings.HasPrefix(l, "REPLAY-") || strings.HasPrefix(l, "--- ") || strings.HasPrefix(l, "ok") || strings.HasPrefix(l, "FAIL") {
			fmt.Println("   " + l)
		}
	}
}
