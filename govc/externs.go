package main

// Assumed contracts on dependencies (never verified). Every entry is listed in
// the evidence as part of the trusted base.

import (
	"fmt"
	"go/token"
	"go/types"
	"sort"
	"strings"

	"golang.org/x/tools/go/ssa"
)

type externFn func(ex *Exec, fr *Frame, st *State, pc *Term, fn *ssa.Function, args []Value, pos token.Pos) (Value, *Term)

var externs = map[string]externFn{}
var externWrites = map[string][]string{}
var externDoc = map[string]string{}

// externFreshOnly["fn|comp"]: the extern writes this component only at objects it allocates itself
var externFreshOnly = map[string]bool{}

type prefixExtern struct {
	prefix string
	h      externFn
	doc    string
}

var prefixExterns []prefixExtern

var externUsed = map[string]bool{}

func externByPrefix(key string) externFn {
	for _, p := range prefixExterns {
		if strings.HasPrefix(key, p.prefix) {
			externUsed[p.prefix+"*"] = true
			return p.h
		}
	}
	return nil
}

func regExtern(key, doc string, h externFn) {
	externs[key] = func(ex *Exec, fr *Frame, st *State, pc *Term, fn *ssa.Function, args []Value, pos token.Pos) (Value, *Term) {
		externUsed[key] = true
		return h(ex, fr, st, pc, fn, args, pos)
	}
	externDoc[key] = doc
}

func regPrefix(prefix, doc string, h externFn) {
	prefixExterns = append(prefixExterns, prefixExtern{prefix, h, doc})
	externDoc[prefix+"*"] = doc
}

func usedExternDocs() []string {
	var out []string
	for k := range externUsed {
		out = append(out, k+": "+externDoc[k])
	}
	sort.Strings(out)
	return out
}

// freshResult: opaque results of the callee's result types
func freshResults(ex *Exec, st *State, pc *Term, fn *ssa.Function, name string) Value {
	res := fn.Signature.Results()
	var vals []Value
	for i := 0; i < res.Len(); i++ {
		v := freshValue(res.At(i).Type(), name)
		ex.assumeWF(st, pc, v)
		vals = append(vals, v)
	}
	switch len(vals) {
	case 0:
		return VTuple{}
	case 1:
		return vals[0]
	}
	return VTuple{vals}
}

func pureOpaque(ex *Exec, fr *Frame, st *State, pc *Term, fn *ssa.Function, args []Value, pos token.Pos) (Value, *Term) {
	return freshResults(ex, st, pc, fn, "ext$"+fn.Name()), pc
}

func nonNilError(ex *Exec, st *State, pc *Term, what string) VIface {
	tag := Const(typeTag(types.Universe.Lookup("error").Type())+1000, 64) // some concrete error type
	pay := Fresh("err$"+what, BV64)
	return VIface{tag, pay}
}

func init() {
	regExtern("fmt.Errorf", "returns a non-nil error; no effect on modelled state", func(ex *Exec, fr *Frame, st *State, pc *Term, fn *ssa.Function, args []Value, pos token.Pos) (Value, *Term) {
		return nonNilError(ex, st, pc, "Errorf"), pc
	})
	regExtern("errors.New", "returns a non-nil error", func(ex *Exec, fr *Frame, st *State, pc *Term, fn *ssa.Function, args []Value, pos token.Pos) (Value, *Term) {
		return nonNilError(ex, st, pc, "New"), pc
	})
	for _, n := range []string{"fmt.Println", "fmt.Printf", "fmt.Print", "fmt.Sprintf", "fmt.Sprint", "fmt.Sprintln", "fmt.Fprintf", "fmt.Fprintln"} {
		regExtern(n, "formatting/printing: opaque result, no effect on modelled state", pureOpaque)
	}
	regPrefix("(*github.com/sirupsen/logrus.", "logging: no effect on modelled state", pureOpaque)
	regPrefix("github.com/sirupsen/logrus.", "logging: no effect on modelled state", pureOpaque)
	regPrefix("log.", "logging: no effect on modelled state (log.Fatal* treated as returning)", pureOpaque)
	regPrefix("(*log.Logger).", "logging", pureOpaque)
	regExtern("time.Now", "opaque time value", pureOpaque)
	regPrefix("(time.Time).", "time accessors: opaque values (ranges added where a contract needs them)", timeAccessor)
	regPrefix("time.", "time package functions: opaque", pureOpaque)

	regExtern("strings.HasPrefix", "HasPrefix(s,p) <=> len(s) >= len(p) && s[:len(p)] == p", func(ex *Exec, fr *Frame, st *State, pc *Term, fn *ssa.Function, args []Value, pos token.Pos) (Value, *Term) {
		s, p := args[0].(VStr).T, args[1].(VStr).T
		ls, lp := StrLen(s), StrLen(p)
		return VBool{And(SLe(lp, ls), Eq(StrSub(s, C64(0), lp), p))}, pc
	})
	regExtern("strings.TrimPrefix", "TrimPrefix(s,p): s[len(p):] when s has prefix p, else s", func(ex *Exec, fr *Frame, st *State, pc *Term, fn *ssa.Function, args []Value, pos token.Pos) (Value, *Term) {
		s, p := args[0].(VStr).T, args[1].(VStr).T
		ls, lp := StrLen(s), StrLen(p)
		has := And(SLe(lp, ls), Eq(StrSub(s, C64(0), lp), p))
		return VStr{Ite(has, StrSub(s, lp, ls), s)}, pc
	})
	regExtern("strings.Split", "Split(s,sep), sep non-empty: at least one part; parts[0] is a prefix of s; a single part equals s. Split(s, \"\"): one part per UTF-8 sequence (between len/4 and len parts of 1..4 bytes)", func(ex *Exec, fr *Frame, st *State, pc *Term, fn *ssa.Function, args []Value, pos token.Pos) (Value, *Term) {
		s := args[0].(VStr).T
		sep := args[1].(VStr).T
		strT := types.Typ[types.String]
		n := Fresh("split.n", BV64)
		sl := ex.newSlice(st, pc, strT, n, n)
		ex.assume(pc, SLe(C64(0), n))
		ex.assume(pc, SLe(n, Add(StrLen(s), C64(1))))
		if lit, ok := litOf(sep); ok && lit != "" {
			ex.assume(pc, SLe(C64(1), n))
			first := Fresh("split.first", StrSort)
			k := StrLen(first)
			ex.assume(pc, And(SLe(C64(0), k), SLe(k, StrLen(s)), Eq(first, StrSub(s, C64(0), k))))
			ex.assume(pc, Implies(Eq(n, C64(1)), Eq(first, s)))
			// when more than one part: s = first + sep + rest
			ex.assume(pc, Implies(SLt(C64(1), n), And(SLe(Add(k, C64(int64(len(lit)))), StrLen(s)),
				Eq(StrSub(s, k, Add(k, C64(int64(len(lit))))), sep))))
			name := eCompName(strT, 0)
			c := st.comp(name, ArrSort(BV64, ArrSort(BV64, StrSort)))
			row := Select(c, sl.Arr)
			rest := Fresh("split.rest", ArrSort(BV64, StrSort))
			_ = row
			st.setComp(name, Store(c, sl.Arr, Store(rest, C64(0), first)))
		} else {
			// sep == "" (explode into UTF-8 sequences) or unknown: opaque content. The number of parts is the
			// number of characters, not of bytes: between ceil(len/4) and len (equal to len only for ASCII);
			// a part is 1 to 4 bytes long
			if ok && lit == "" {
				ex.assume(pc, And(SLe(n, StrLen(s)), SLe(StrLen(s), Mul(n, C64(4)))))
				name := eCompName(strT, 0)
				c := st.comp(name, ArrSort(BV64, ArrSort(BV64, StrSort)))
				rest := Fresh("split.chars", ArrSort(BV64, StrSort))
				j := Bound("j", BV64)
				ex.assume(pc, Forall([]*Term{j}, Implies(And(SLe(C64(0), j), SLt(j, n)), And(SLe(C64(1), App("gostr.len", BV64, Select(rest, j))), SLe(App("gostr.len", BV64, Select(rest, j)), C64(4)))), []*Term{Select(rest, j)}))
				st.setComp(name, Store(c, sl.Arr, rest))
			}
		}
		return sl, pc
	})
	externWrites["strings.Split"] = []string{"next", eCompName(types.Typ[types.String], 0)}
	externFreshOnly["strings.Split|"+eCompName(types.Typ[types.String], 0)] = true
	compSorts[eCompName(types.Typ[types.String], 0)] = ArrSort(BV64, ArrSort(BV64, StrSort))
	regPrefix("strings.", "other strings functions: opaque results", pureOpaque)
	regPrefix("strconv.", "strconv: opaque results (specific functions modelled separately)", pureOpaque)
	regPrefix("math.", "math: opaque results", pureOpaque)
	regPrefix("encoding/hex.", "hex: opaque results", pureOpaque)
}

func timeAccessor(ex *Exec, fr *Frame, st *State, pc *Term, fn *ssa.Function, args []Value, pos token.Pos) (Value, *Term) {
	// deterministic accessors of a time value: uninterpreted functions of the receiver
	recv := toLeaves(args[0])
	rng := map[string][2]int64{"Month": {1, 12}, "Day": {1, 31}, "Hour": {0, 23}, "Minute": {0, 59}, "Second": {0, 59}, "Year": {0, 9999}}
	res := fn.Signature.Results()
	if r, ok := rng[fn.Name()]; ok && res.Len() == 1 {
		t := App("time."+fn.Name(), BV64, recv...)
		ex.assume(pc, And(SLe(C64(r[0]), t), SLe(t, C64(r[1]))))
		return VBV{t}, pc
	}
	if fn.Name() == "Zone" {
		name := App("time.ZoneName", StrSort, recv...)
		off := App("time.ZoneOffset", BV64, recv...)
		ex.assume(pc, And(SLe(C64(-18*3600), off), SLe(off, C64(18*3600))))
		return VTuple{[]Value{VStr{name}, VBV{off}}}, pc
	}
	return freshResults(ex, st, pc, fn, "time$"+fn.Name()), pc
}

func (ex *Exec) ifaceCall(fr *Frame, st *State, pc *Term, cc *ssa.CallCommon, c *Contract, recv VIface, args []Value, pos token.Pos) (Value, *Term) {
	panic(unsupported(fmt.Sprintf("interface contracts not implemented (%s)", cc.Method.Name())))
}
