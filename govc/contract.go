package main

// Contract files (//@ comments in *_verif.go), phase-1 analysis and clause
// function generation.

import (
	"bytes"
	"fmt"
	"go/ast"
	"go/parser"
	"go/printer"
	"go/token"
	"go/types"
	"os"
	"path/filepath"
	"regexp"
	"sort"
	"strings"

	"golang.org/x/tools/go/packages"
)

type ClauseParam struct {
	Name    string
	Kind    string // param | entry | result | local | iter | old
	Index   int
	DeclPos string // file:line:col for locals
	OldFn   string
	TypeStr string
}

type Clause struct {
	Kind                    string // requires | ensures | invariant | decreases | panics | modifies
	Loop                    int
	Text                    string
	Props                   []string
	GoExpr                  string
	FnName                  string
	Params                  []ClauseParam
	ModKind                 string // for modifies: elems | obj | field | mapof | global
	ModField                string
	Show                    bool
	Assumed                 bool   // assume-at: an environment precondition stated at a program point
	Anchor                  string // for assert: source text prefix of the statement before which it holds
	AnchorPos, AnchorEnd    token.Pos
	AnchorFile              string
	AnchorOff, AnchorEndOff int
	Known                   bool
	Broken                  string // the clause does not apply to the current source (anchor or loop missing, does not type-check)
}

type Contract struct {
	PkgPath       string
	Func          string // package-relative SSA name
	Props         []string
	Requires      []*Clause
	Ensures       []*Clause
	Invs          map[int][]*Clause
	Preserved     map[int][]*Clause // loop k: preserved n int :: guard :: expr  (proved by induction on n at the back edge)
	Decr          map[int]*Clause
	Modifies      []*Clause
	Asserts       []*Clause
	Shows         []*Clause
	Linear        []string     // slice variables used linearly (s = append(s, ...))
	Bounded       string       // non-empty: the obligations are a bounded stand-in with this stated bound
	Tier          string       // "thorough": only checked in the thorough tier
	Entry         bool         // request entry point: no mutex is held when it starts
	UnrollInlined map[int]bool // unroll only when the function is executed in place inside a caller
	InlineCalls   []string     // callees executed in place here although they have a (non-inline) contract
	Inline        bool
	Strict        bool
	Trusted       bool
	GoBodies      bool // "go-bodies": the body of a function started with `go` is executed (for its safety obligations) in the state at the go statement
	ReflectValid  bool // "reflect-validity": reflect.Value methods are checked against the zero Value (see reflectHooks)
	ModAny        bool // "modifies-anything": no frame is claimed; callers forget every component the body may write
	AssumedFrame  bool // the modifies clauses are used by callers but not checked against this body (listed as an assumption)
	Lemma         bool
	Allocates     bool
	SafetyProps   []string
	NoSafety      bool
	PanicsWhen    *Clause
	Unroll        map[int]int
	File          string
	Line          int
	// phase-1 info
	ParamNames    []string
	ResultNames   []string
	NLoops        int
	Abstract      bool
	BrokenClauses []*Clause // clauses removed because they do not apply to the current source; each is reported as a failed obligation
	Broken        string    // the function the contract names does not exist in the current source
}

var tagRe = regexp.MustCompile(`\[((?:C\d+\s*)+)\]`)

func parseProps(s string) ([]string, string) {
	m := tagRe.FindStringSubmatchIndex(s)
	if m == nil {
		return nil, s
	}
	props := strings.Fields(s[m[2]:m[3]])
	return props, strings.TrimSpace(s[:m[0]] + s[m[1]:])
}

// parseContractFile extracts //@ blocks from one file.
func parseContractFile(path, pkgPath string) ([]*Contract, error) {
	data, err := os.ReadFile(path)
	if err != nil {
		return nil, err
	}
	var out []*Contract
	var cur *Contract
	var last *Clause
	for i, line := range strings.Split(string(data), "\n") {
		t := strings.TrimSpace(line)
		// "//@ ..." ; gofmt rewrites it to "// @ ..." inside doc comments: both are accepted
		if !strings.HasPrefix(t, "//") {
			continue
		}
		t = strings.TrimSpace(t[2:])
		if !strings.HasPrefix(t, "@") {
			continue
		}
		t = strings.TrimSpace(t[1:])
		if t == "" {
			continue
		}
		if strings.HasPrefix(t, "|") {
			if last == nil {
				return nil, fmt.Errorf("%s:%d: continuation without clause", path, i+1)
			}
			last.Text += " " + strings.TrimSpace(t[1:])
			continue
		}
		word, rest := t, ""
		if j := strings.IndexAny(t, " \t"); j >= 0 {
			word, rest = t[:j], strings.TrimSpace(t[j+1:])
		}
		switch word {
		case "func", "lemma":
			props, name := parseProps(rest)
			cur = &Contract{PkgPath: pkgPath, Func: name, Props: props, Invs: map[int][]*Clause{}, Decr: map[int]*Clause{}, Unroll: map[int]int{}, File: path, Line: i + 1}
			cur.SafetyProps = props
			cur.Lemma = word == "lemma"
			out = append(out, cur)
			last = nil
			continue
		}
		if cur == nil {
			return nil, fmt.Errorf("%s:%d: clause outside a func block", path, i+1)
		}
		mk := func(kind string, loop int, text string) *Clause {
			assumed := false
			if strings.HasPrefix(strings.TrimSpace(text), "assumed ") {
				assumed = true
				text = strings.TrimSpace(strings.TrimPrefix(strings.TrimSpace(text), "assumed "))
			}
			props, txt := parseProps(text)
			if props == nil {
				props = cur.Props
			}
			c := &Clause{Kind: kind, Loop: loop, Text: txt, Props: props, Assumed: assumed}
			last = c
			return c
		}
		switch word {
		case "requires":
			cur.Requires = append(cur.Requires, mk("requires", -1, rest))
		case "ensures":
			cur.Ensures = append(cur.Ensures, mk("ensures", -1, rest))
		case "show":
			// debugging aid: value of an expression (ensures scope) reported from counterexample models
			c := mk("ensures", -1, rest)
			c.Show = true
			cur.Shows = append(cur.Shows, c)
		case "panics":
			rest = strings.TrimSpace(strings.TrimPrefix(rest, "when"))
			cur.PanicsWhen = mk("panics", -1, rest)
		case "assume", "assert":
			// assert "anchor": expr   (assume: taken as an environment precondition at that point, never proved)
			if !strings.HasPrefix(rest, "\"") {
				return nil, fmt.Errorf("%s:%d: assert needs a quoted anchor", path, i+1)
			}
			j := strings.Index(rest[1:], "\":")
			if j < 0 {
				return nil, fmt.Errorf("%s:%d: assert needs \"anchor\": expr", path, i+1)
			}
			c := mk("assert", -1, strings.TrimSpace(rest[j+3:]))
			c.Anchor = rest[1 : j+1]
			c.Assumed = word == "assume"
			cur.Asserts = append(cur.Asserts, c)
		case "loop":
			var k int
			var kind string
			j := strings.Index(rest, ":")
			if j < 0 {
				return nil, fmt.Errorf("%s:%d: bad loop clause", path, i+1)
			}
			fmt.Sscanf(rest[:j], "%d", &k)
			r2 := strings.TrimSpace(rest[j+1:])
			if sp := strings.IndexAny(r2, " \t"); sp >= 0 {
				kind, r2 = r2[:sp], strings.TrimSpace(r2[sp+1:])
			} else {
				kind, r2 = r2, ""
			}
			switch kind {
			case "invariant":
				cur.Invs[k] = append(cur.Invs[k], mk("invariant", k, r2))
			case "decreases":
				cur.Decr[k] = mk("decreases", k, r2)
			case "preserved":
				if cur.Preserved == nil {
					cur.Preserved = map[int][]*Clause{}
				}
				cur.Preserved[k] = append(cur.Preserved[k], mk("preserved", k, r2))
			case "unroll":
				var n int
				fmt.Sscanf(r2, "%d", &n)
				cur.Unroll[k] = n
				if strings.Contains(r2, "when-inlined") {
					if cur.UnrollInlined == nil {
						cur.UnrollInlined = map[int]bool{}
					}
					cur.UnrollInlined[k] = true
				}
			default:
				return nil, fmt.Errorf("%s:%d: unknown loop clause %q", path, i+1, kind)
			}
		case "modifies":
			for _, part := range splitTop(rest, ',') {
				part = strings.TrimSpace(part)
				if part == "" {
					continue
				}
				c := mk("modifies", -1, part)
				j := strings.Index(part, "(")
				if j < 0 || !strings.HasSuffix(part, ")") {
					return nil, fmt.Errorf("%s:%d: bad modifies target %q", path, i+1, part)
				}
				c.ModKind = part[:j]
				inner := part[j+1 : len(part)-1]
				if c.ModKind == "field" {
					ps := splitTop(inner, ',')
					if len(ps) != 2 {
						return nil, fmt.Errorf("%s:%d: field(p, F) expected", path, i+1)
					}
					inner = strings.TrimSpace(ps[0])
					c.ModField = strings.TrimSpace(ps[1])
				}
				c.Text = inner
				cur.Modifies = append(cur.Modifies, c)
			}
		case "linear":
			for _, n := range strings.Split(rest, ",") {
				if n = strings.TrimSpace(n); n != "" {
					cur.Linear = append(cur.Linear, n)
				}
			}
		case "inline-calls":
			for _, n := range strings.Split(rest, ",") {
				if n = strings.TrimSpace(n); n != "" {
					cur.InlineCalls = append(cur.InlineCalls, n)
				}
			}
		case "entry":
			cur.Entry = true
		case "tier":
			cur.Tier = strings.TrimSpace(rest)
		case "bounded":
			cur.Bounded = rest
		case "inline":
			cur.Inline = true
		case "strict":
			cur.Strict = true
		case "trusted":
			cur.Trusted = true
		case "assumed-frame":
			cur.AssumedFrame = true
		case "modifies-anything":
			cur.ModAny = true
		case "reflect-validity":
			cur.ReflectValid = true
		case "go-bodies":
			cur.GoBodies = true
		case "abstract":
			cur.Abstract = true
		case "allocates":
			cur.Allocates = true
		case "nosafety":
			cur.NoSafety = true
		case "safety":
			props, _ := parseProps(rest)
			cur.SafetyProps = props
		default:
			return nil, fmt.Errorf("%s:%d: unknown clause %q", path, i+1, word)
		}
	}
	return out, nil
}

func splitTop(s string, sep byte) []string {
	var out []string
	depth := 0
	start := 0
	for i := 0; i < len(s); i++ {
		switch s[i] {
		case '(', '[', '{':
			depth++
		case ')', ']', '}':
			depth--
		default:
			if s[i] == sep && depth == 0 {
				out = append(out, s[start:i])
				start = i + 1
			}
		}
	}
	return append(out, s[start:])
}

// rewriteSpec turns the contract expression syntax into plain Go.
//
//	forall k T :: e   ->  verif_forall(func(k T) bool { return e })
//	a ==> b           ->  (!(a) || (b))
func rewriteSpec(s string) string {
	s = strings.TrimSpace(s)
	// quantifier at top level (anywhere): everything to its right is its body
	if i := findTopWord(s, "forall"); i >= 0 {
		j := strings.Index(s[i:], "::")
		if j < 0 {
			panic("forall without ::")
		}
		binder := strings.TrimSpace(s[i+len("forall") : i+j])
		body := rewriteSpec(s[i+j+2:])
		fname := "verif_forall"
		if n := len(splitTop(binder, ',')); n > 1 {
			fname = fmt.Sprintf("verif_forall%d", n)
		}
		q := fmt.Sprintf("%s(func(%s) bool { return %s })", fname, binder, body)
		if k := strings.Index(binder, " in "); k >= 0 {
			// forall k int in lo..hi :: body   (hi exclusive)
			rng := strings.SplitN(binder[k+4:], "..", 2)
			if len(rng) != 2 {
				panic("bad range in forall")
			}
			q = fmt.Sprintf("verif_forall_range(%s, %s, func(%s) bool { return %s })", strings.TrimSpace(rng[0]), strings.TrimSpace(rng[1]), strings.TrimSpace(binder[:k]), body)
		}
		prefix := s[:i]
		if strings.TrimSpace(prefix) == "" {
			return q
		}
		return strings.Replace(rewriteSpec(prefix+" VERIFQ "), "VERIFQ", q, 1)
	}
	if i := findTopOp(s, "==>"); i >= 0 {
		return "(!(" + rewriteSpec(s[:i]) + ") || (" + rewriteSpec(s[i+3:]) + "))"
	}
	// descend into parenthesised groups
	var sb strings.Builder
	for i := 0; i < len(s); i++ {
		if s[i] == '(' {
			depth := 1
			j := i + 1
			for ; j < len(s) && depth > 0; j++ {
				if s[j] == '(' {
					depth++
				} else if s[j] == ')' {
					depth--
				}
			}
			inner := s[i+1 : j-1]
			if strings.Contains(inner, "forall") || strings.Contains(inner, "==>") {
				// argument lists: rewrite each comma-separated part
				parts := splitTop(inner, ',')
				for k := range parts {
					parts[k] = rewriteSpec(parts[k])
				}
				sb.WriteString("(" + strings.Join(parts, ", ") + ")")
			} else {
				sb.WriteString("(" + inner + ")")
			}
			i = j - 1
			continue
		}
		sb.WriteByte(s[i])
	}
	return sb.String()
}

func findTopWord(s, w string) int {
	depth := 0
	for i := 0; i+len(w) <= len(s); i++ {
		switch s[i] {
		case '(', '[', '{':
			depth++
		case ')', ']', '}':
			depth--
		}
		if depth == 0 && strings.HasPrefix(s[i:], w) {
			before := i == 0 || !isIdentChar(s[i-1])
			after := i+len(w) == len(s) || !isIdentChar(s[i+len(w)])
			if before && after {
				return i
			}
		}
	}
	return -1
}

func findTopOp(s, op string) int {
	depth := 0
	for i := 0; i+len(op) <= len(s); i++ {
		switch s[i] {
		case '(', '[', '{':
			depth++
		case ')', ']', '}':
			depth--
		}
		if depth == 0 && strings.HasPrefix(s[i:], op) {
			return i
		}
	}
	return -1
}

func isIdentChar(c byte) bool {
	return c == '_' || (c >= 'a' && c <= 'z') || (c >= 'A' && c <= 'Z') || (c >= '0' && c <= '9')
}

// extractOld hoists old(e) sub-expressions: returns the rewritten text and the list of e's
func extractOld(s string) (string, []string) {
	var olds []string
	for {
		i := findWordAnywhere(s, "old")
		if i < 0 {
			return s, olds
		}
		j := i + 3
		for j < len(s) && s[j] == ' ' {
			j++
		}
		if j >= len(s) || s[j] != '(' {
			return s, olds
		}
		depth := 1
		k := j + 1
		for ; k < len(s) && depth > 0; k++ {
			if s[k] == '(' {
				depth++
			} else if s[k] == ')' {
				depth--
			}
		}
		olds = append(olds, s[j+1:k-1])
		s = s[:i] + fmt.Sprintf("verif_old%d", len(olds)-1) + s[k:]
	}
}

func findWordAnywhere(s, w string) int {
	for i := 0; i+len(w) <= len(s); i++ {
		if strings.HasPrefix(s[i:], w) {
			before := i == 0 || !isIdentChar(s[i-1])
			after := i+len(w) == len(s) || !isIdentChar(s[i+len(w)])
			if before && after && (i == 0 || s[i-1] != '.') {
				return i
			}
		}
	}
	return -1
}

// ---------------------------------------------------------------- phase 1

type fnSyntax struct {
	decl  *ast.FuncDecl
	lit   *ast.FuncLit
	typ   *ast.FuncType
	recv  *ast.FieldList
	body  *ast.BlockStmt
	loops []ast.Stmt
	file  *ast.File
}

// findFuncSyntax resolves an SSA-style package-relative function name.
func findFuncSyntax(pkg *packages.Package, name string) *fnSyntax {
	parts := strings.Split(name, "$")
	base := parts[0]
	var recvName string
	ptr := false
	if strings.HasPrefix(base, "(") {
		j := strings.Index(base, ")")
		recvName = base[1:j]
		if strings.HasPrefix(recvName, "*") {
			ptr = true
			recvName = recvName[1:]
		}
		base = strings.TrimPrefix(base[j+1:], ".")
	}
	for _, f := range pkg.Syntax {
		for _, d := range f.Decls {
			fd, ok := d.(*ast.FuncDecl)
			if !ok || fd.Name.Name != base || fd.Body == nil {
				continue
			}
			if recvName == "" && fd.Recv != nil {
				continue
			}
			if recvName != "" {
				if fd.Recv == nil || len(fd.Recv.List) != 1 {
					continue
				}
				rt := fd.Recv.List[0].Type
				isPtr := false
				if s, ok := rt.(*ast.StarExpr); ok {
					isPtr = true
					rt = s.X
				}
				id, ok := rt.(*ast.Ident)
				if !ok || id.Name != recvName || isPtr != ptr {
					continue
				}
			}
			fs := &fnSyntax{decl: fd, typ: fd.Type, recv: fd.Recv, body: fd.Body, file: f}
			for _, p := range parts[1:] {
				var k int
				fmt.Sscanf(p, "%d", &k)
				lit := nthFuncLit(fs.body, k)
				if lit == nil {
					return nil
				}
				fs = &fnSyntax{lit: lit, typ: lit.Type, body: lit.Body, file: f}
			}
			fs.loops = collectLoops(fs.body)
			return fs
		}
	}
	return nil
}

func nthFuncLit(body *ast.BlockStmt, k int) *ast.FuncLit {
	n := 0
	var found *ast.FuncLit
	ast.Inspect(body, func(nd ast.Node) bool {
		if found != nil {
			return false
		}
		if fl, ok := nd.(*ast.FuncLit); ok {
			n++
			if n == k {
				found = fl
			}
			return false // nested literals belong to the literal
		}
		return true
	})
	return found
}

func collectLoops(body *ast.BlockStmt) []ast.Stmt {
	var out []ast.Stmt
	ast.Inspect(body, func(nd ast.Node) bool {
		switch x := nd.(type) {
		case *ast.FuncLit:
			return false
		case *ast.ForStmt:
			out = append(out, x)
		case *ast.RangeStmt:
			out = append(out, x)
		}
		return true
	})
	return out
}

type genCtx struct {
	pkg     *packages.Package
	imports map[string]string // path -> alias
	buf     bytes.Buffer
	n       int
}

func (g *genCtx) qualifier(p *types.Package) string {
	if p == g.pkg.Types {
		return ""
	}
	if a, ok := g.imports[p.Path()]; ok {
		return a
	}
	a := fmt.Sprintf("vimp%d", len(g.imports))
	g.imports[p.Path()] = a
	return a
}

func (g *genCtx) typeStr(t types.Type) string {
	return types.TypeString(t, g.qualifier)
}

func mangle(s string) string {
	var sb strings.Builder
	for _, r := range s {
		if (r >= 'a' && r <= 'z') || (r >= 'A' && r <= 'Z') || (r >= '0' && r <= '9') {
			sb.WriteRune(r)
		} else {
			sb.WriteByte('_')
		}
	}
	return sb.String()
}

type sigInfo struct {
	params  []*types.Var
	results []*types.Var
	pnames  []string
	rnames  []string
}

func sigOf(pkg *packages.Package, fs *fnSyntax) *sigInfo {
	var sig *types.Signature
	if fs.decl != nil {
		sig = pkg.TypesInfo.Defs[fs.decl.Name].Type().(*types.Signature)
	} else {
		sig = pkg.TypesInfo.TypeOf(fs.lit).(*types.Signature)
	}
	si := &sigInfo{}
	if sig.Recv() != nil {
		si.params = append(si.params, sig.Recv())
	}
	for i := 0; i < sig.Params().Len(); i++ {
		si.params = append(si.params, sig.Params().At(i))
	}
	for i := 0; i < sig.Results().Len(); i++ {
		si.results = append(si.results, sig.Results().At(i))
	}
	for i, p := range si.params {
		n := p.Name()
		if n == "" || n == "_" {
			n = fmt.Sprintf("arg%d", i)
		}
		si.pnames = append(si.pnames, n)
	}
	for i, r := range si.results {
		n := r.Name()
		if n == "" || n == "_" {
			if len(si.results) == 1 {
				n = "result"
			} else {
				n = fmt.Sprintf("result%d", i)
			}
		}
		si.rnames = append(si.rnames, n)
	}
	return si
}

func identsOf(expr string) (map[string]bool, error) {
	e, err := parser.ParseExpr(expr)
	if err != nil {
		return nil, err
	}
	out := map[string]bool{}
	bound := map[string]int{}
	var walk func(n ast.Node)
	walk = func(n ast.Node) {
		switch x := n.(type) {
		case nil:
			return
		case *ast.Ident:
			if bound[x.Name] == 0 {
				out[x.Name] = true
			}
		case *ast.SelectorExpr:
			walk(x.X)
		case *ast.KeyValueExpr:
			walk(x.Value)
			if _, ok := x.Key.(*ast.Ident); !ok {
				walk(x.Key)
			}
		case *ast.FuncLit:
			for _, f := range x.Type.Params.List {
				for _, nm := range f.Names {
					bound[nm.Name]++
				}
				walk(f.Type)
			}
			walk(x.Body)
			for _, f := range x.Type.Params.List {
				for _, nm := range f.Names {
					bound[nm.Name]--
				}
			}
		default:
			ast.Inspect(n, func(m ast.Node) bool {
				if m == n || m == nil {
					return true
				}
				walk(m)
				return false
			})
		}
	}
	walk(e)
	return out, nil
}

// genClause emits the Go function(s) for one clause and fills clause metadata.
func (g *genCtx) genClause(c *Contract, cl *Clause, fs *fnSyntax, si *sigInfo) error {
	var goExpr string
	func() {
		defer func() {
			if r := recover(); r != nil {
				goExpr = ""
			}
		}()
		if cl.Kind == "preserved" {
			// n T :: guard :: expr
			// optional fourth part: the type of expr (default int; needs a generic verif_preserved)
			ps := strings.SplitN(cl.Text, "::", 4)
			if len(ps) < 3 {
				return
			}
			rt := "int"
			if len(ps) == 4 {
				rt = strings.TrimSpace(ps[3])
			}
			b := strings.TrimSpace(ps[0])
			goExpr = fmt.Sprintf("verif_preserved(func(%s) bool { return %s }, func(%s) %s { return %s })", b, rewriteSpec(ps[1]), b, rt, rewriteSpec(ps[2]))
			return
		}
		goExpr = rewriteSpec(cl.Text)
	}()
	if goExpr == "" {
		return fmt.Errorf("%s:%d: cannot rewrite clause %q", c.File, c.Line, cl.Text)
	}
	goExpr, olds, err0 := hoistOld(goExpr)
	if err0 != nil {
		return fmt.Errorf("%s:%d: clause %q: %v", c.File, c.Line, cl.Text, err0)
	}
	cl.GoExpr = goExpr
	ids, err := identsOf(goExpr)
	if err != nil {
		return fmt.Errorf("%s:%d: clause %q: %v", c.File, c.Line, cl.Text, err)
	}
	g.n++
	cl.FnName = fmt.Sprintf("verifClause_%s_%s%d", mangle(c.Func), cl.Kind, g.n)
	var params []ClauseParam
	var decl []string
	add := func(p ClauseParam, t types.Type) {
		p.TypeStr = g.typeStr(t)
		params = append(params, p)
		decl = append(decl, p.Name+" "+p.TypeStr)
	}
	isInv := cl.Kind == "invariant" || cl.Kind == "decreases" || cl.Kind == "assert" || cl.Kind == "preserved"
	for i, p := range si.params {
		add(ClauseParam{Name: si.pnames[i], Kind: "param", Index: i}, p.Type())
	}
	if isInv || cl.Kind == "ensures" {
		for i, p := range si.params {
			if ids[si.pnames[i]+"0"] {
				add(ClauseParam{Name: si.pnames[i] + "0", Kind: "entry", Index: i}, p.Type())
			}
		}
	}
	if cl.Kind == "ensures" {
		for i, r := range si.results {
			add(ClauseParam{Name: si.rnames[i], Kind: "result", Index: i}, r.Type())
		}
	}
	have := map[string]bool{}
	for _, p := range params {
		have[p.Name] = true
	}
	if isInv {
		if ids["ITER"] {
			add(ClauseParam{Name: "ITER", Kind: "iter"}, types.Typ[types.Int])
			have["ITER"] = true
		}
		var pos token.Pos
		if cl.Kind == "assert" {
			var found []ast.Stmt
			ast.Inspect(fs.body, func(nd ast.Node) bool {
				if _, ok := nd.(*ast.FuncLit); ok {
					return false
				}
				if st, ok := nd.(ast.Stmt); ok {
					if _, isBlock := st.(*ast.BlockStmt); !isBlock {
						txt := strings.Join(strings.Fields(nodeText(g.pkg.Fset, st)), " ")
						if strings.HasPrefix(txt, strings.Join(strings.Fields(cl.Anchor), " ")) {
							found = append(found, st)
						}
					}
				}
				return true
			})
			if len(found) == 0 {
				return fmt.Errorf("%s:%d: assert anchor %q not found in %s", c.File, c.Line, cl.Anchor, c.Func)
			}
			// outermost first match
			pos = found[0].Pos()
			cl.AnchorPos, cl.AnchorEnd = found[0].Pos(), found[0].End()
			pp, pe := g.pkg.Fset.Position(found[0].Pos()), g.pkg.Fset.Position(found[0].End())
			cl.AnchorFile, cl.AnchorOff, cl.AnchorEndOff = pp.Filename, pp.Offset, pe.Offset
		} else {
			if cl.Loop >= len(fs.loops) {
				return fmt.Errorf("%s:%d: loop %d does not exist in %s (has %d loops)", c.File, c.Line, cl.Loop, c.Func, len(fs.loops))
			}
			switch l := fs.loops[cl.Loop].(type) {
			case *ast.ForStmt:
				pos = l.Body.Lbrace
			case *ast.RangeStmt:
				pos = l.Body.Lbrace
			}
		}
		scope := g.pkg.Types.Scope().Innermost(pos)
		var names []string
		for n := range ids {
			names = append(names, n)
		}
		sort.Strings(names)
		for _, n := range names {
			if have[n] || scope == nil {
				continue
			}
			_, obj := scope.LookupParent(n, pos)
			v, ok := obj.(*types.Var)
			if !ok || v.Parent() == g.pkg.Types.Scope() || v.Parent() == types.Universe || v.IsField() {
				continue
			}
			p := g.pkg.Fset.Position(v.Pos())
			add(ClauseParam{Name: n, Kind: "local", DeclPos: fmt.Sprintf("%s:%d:%d", p.Filename, p.Line, p.Column)}, v.Type())
			have[n] = true
		}
	}
	// old() hoists: functions of the entry parameters evaluated in the pre-state
	for k, oe := range olds {
		var pd []string
		for i, p := range si.params {
			pd = append(pd, si.pnames[i]+" "+g.typeStr(p.Type()))
		}
		// type of the old expression: checked in phase 1 at the function body, binders replaced by typed dummies
		tv, err := types.Eval(g.pkg.Fset, g.pkg.Types, fs.body.Lbrace+1, oe.typeProbe)
		if err != nil {
			return fmt.Errorf("%s:%d: old(%s): %v", c.File, c.Line, oe.expr, err)
		}
		ofn := fmt.Sprintf("%s_old%d", cl.FnName, k)
		rt := g.typeStr(tv.Type)
		if len(oe.binders) == 0 {
			fmt.Fprintf(&g.buf, "func %s(%s) %s { return %s }\n", ofn, strings.Join(pd, ", "), rt, oe.expr)
			p := ClauseParam{Name: fmt.Sprintf("verif_old%d", k), Kind: "old", OldFn: ofn, TypeStr: rt}
			params = append(params, p)
			decl = append(decl, p.Name+" "+rt)
		} else {
			ft := "func(" + strings.Join(oe.binders, ", ") + ") " + rt
			fmt.Fprintf(&g.buf, "func %s(%s) %s { return %s { return %s } }\n", ofn, strings.Join(pd, ", "), ft, ft, oe.expr)
			p := ClauseParam{Name: fmt.Sprintf("verif_old%d", k), Kind: "old", OldFn: ofn, TypeStr: ft}
			params = append(params, p)
			decl = append(decl, p.Name+" "+ft)
		}
	}
	cl.Params = params
	ret := "bool"
	if cl.Kind == "decreases" {
		ret = "int"
	}
	if cl.Kind == "modifies" || cl.Show {
		probe := goExpr
		if cl.Show {
			probe = strings.ReplaceAll(rewriteSpec(cl.Text), "old(", "(")
		}
		tv, err := types.Eval(g.pkg.Fset, g.pkg.Types, fs.body.Lbrace+1, probe)
		if err != nil {
			return fmt.Errorf("%s:%d: modifies %s: %v", c.File, c.Line, cl.Text, err)
		}
		ret = g.typeStr(tv.Type)
	}
	fmt.Fprintf(&g.buf, "// %s %s: %s\nfunc %s(%s) %s { return %s }\n", c.Func, cl.Kind, strings.ReplaceAll(cl.Text, "\n", " "), cl.FnName, strings.Join(decl, ", "), ret, goExpr)
	return nil
}

// generateClauses runs phase 1 for one package: returns the generated Go file text.
func generateClauses(pkg *packages.Package, contracts []*Contract) (string, []error) {
	g := &genCtx{pkg: pkg, imports: map[string]string{}}
	var errs []error
	for _, c := range contracts {
		if c.Abstract {
			continue
		}
		fs := findFuncSyntax(pkg, c.Func)
		if fs == nil {
			c.Broken = fmt.Sprintf("function %s not found in %s", c.Func, pkg.PkgPath)
			continue
		}
		si := sigOf(pkg, fs)
		c.ParamNames = si.pnames
		c.ResultNames = si.rnames
		c.NLoops = len(fs.loops)
		var all []*Clause
		all = append(all, c.Requires...)
		all = append(all, c.Ensures...)
		var ks []int
		for k := range c.Invs {
			ks = append(ks, k)
		}
		sort.Ints(ks)
		for _, k := range ks {
			all = append(all, c.Invs[k]...)
		}
		for _, d := range c.Decr {
			all = append(all, d)
		}
		for _, ps := range c.Preserved {
			all = append(all, ps...)
		}
		all = append(all, c.Modifies...)
		all = append(all, c.Asserts...)
		all = append(all, c.Shows...)
		if c.PanicsWhen != nil {
			all = append(all, c.PanicsWhen)
		}
		for _, cl := range all {
			if cl.Broken != "" {
				continue
			}
			if err := g.genClause(c, cl, fs, si); err != nil {
				cl.Broken = err.Error()
			}
		}
	}
	var out bytes.Buffer
	out.WriteString("//go:build verif\n\n// Code generated by govc from the //@ contracts; DO NOT EDIT. Supplied by overlay, never written to the repository.\n\npackage " + pkg.Name + "\n\n")
	var paths []string
	for p := range g.imports {
		paths = append(paths, p)
	}
	sort.Strings(paths)
	for _, p := range paths {
		fmt.Fprintf(&out, "import %s %q\n", g.imports[p], p)
	}
	// imports of the contract files themselves (clauses may mention them by their local names)
	seenImp := map[string]bool{}
	body := g.buf.String()
	for _, f := range pkg.Syntax {
		fn := pkg.Fset.Position(f.Pos()).Filename
		if !strings.HasSuffix(fn, "_verif.go") {
			continue
		}
		for _, im := range f.Imports {
			path := strings.Trim(im.Path.Value, "\"")
			name := ""
			if im.Name != nil {
				name = im.Name.Name
			} else if ip, ok := pkg.Imports[path]; ok {
				name = ip.Name
			}
			if name == "" || name == "_" || name == "." || seenImp[name] {
				continue
			}
			if regexp.MustCompile(`(^|[^A-Za-z0-9_.])` + regexp.QuoteMeta(name) + `\.`).MatchString(body) {
				seenImp[name] = true
				fmt.Fprintf(&out, "import %s %q\n", name, path)
			}
		}
	}
	out.WriteString("\n")
	out.Write(g.buf.Bytes())
	return out.String(), errs
}

func nodeText(fset *token.FileSet, n ast.Node) string {
	var b bytes.Buffer
	printer.Fprint(&b, fset, n)
	return b.String()
}

// contract files of a package directory
func contractFiles(dir string) []string {
	m, _ := filepath.Glob(filepath.Join(dir, "*_verif.go"))
	sort.Strings(m)
	return m
}

type oldHoist struct {
	expr      string
	binders   []string // "k int"
	typeProbe string   // expr with binder identifiers replaced by typed dummies
}

// hoistOld replaces old(e) calls in a Go expression by verif_oldK / verif_oldK(binders...).
func hoistOld(goExpr string) (string, []oldHoist, error) {
	if findWordAnywhere(goExpr, "old") < 0 {
		return goExpr, nil, nil
	}
	e, err := parser.ParseExpr(goExpr)
	if err != nil {
		return "", nil, err
	}
	type occ struct {
		start, end int
		inner      ast.Expr
		binders    [][2]string
	}
	var occs []occ
	var stack [][2]string
	var walk func(n ast.Node)
	walk = func(n ast.Node) {
		switch x := n.(type) {
		case nil:
			return
		case *ast.FuncLit:
			cnt := 0
			for _, f := range x.Type.Params.List {
				ts := goExpr[int(f.Type.Pos())-1 : int(f.Type.End())-1]
				for _, nm := range f.Names {
					stack = append(stack, [2]string{nm.Name, ts})
					cnt++
				}
			}
			walk(x.Body)
			stack = stack[:len(stack)-cnt]
			return
		case *ast.CallExpr:
			if id, ok := x.Fun.(*ast.Ident); ok && id.Name == "old" && len(x.Args) == 1 {
				occs = append(occs, occ{int(x.Pos()) - 1, int(x.End()) - 1, x.Args[0], append([][2]string{}, stack...)})
				return
			}
		}
		ast.Inspect(n, func(m ast.Node) bool {
			if m == n || m == nil {
				return true
			}
			walk(m)
			return false
		})
	}
	walk(e)
	out := goExpr
	var hoists []oldHoist
	// replace from the right so offsets stay valid; numbering left to right
	for k := len(occs) - 1; k >= 0; k-- {
		o := occs[k]
		inner := goExpr[int(o.inner.Pos())-1 : int(o.inner.End())-1]
		// which binders does the inner expression use?
		ids, _ := identsOf(inner)
		var used [][2]string
		for _, b := range o.binders {
			if ids[b[0]] {
				used = append(used, b)
			}
		}
		h := oldHoist{expr: inner}
		probe := inner
		var names []string
		for _, b := range used {
			h.binders = append(h.binders, b[0]+" "+b[1])
			names = append(names, b[0])
			probe = replaceIdent(probe, b[0], "(*new("+b[1]+"))")
		}
		h.typeProbe = probe
		repl := fmt.Sprintf("verif_old%d", k)
		if len(used) > 0 {
			repl += "(" + strings.Join(names, ", ") + ")"
		}
		out = out[:o.start] + repl + out[o.end:]
		hoists = append([]oldHoist{h}, hoists...)
	}
	return out, hoists, nil
}

func replaceIdent(s, name, with string) string {
	var sb strings.Builder
	for i := 0; i < len(s); {
		if strings.HasPrefix(s[i:], name) && (i == 0 || (!isIdentChar(s[i-1]) && s[i-1] != '.')) && (i+len(name) == len(s) || !isIdentChar(s[i+len(name)])) {
			sb.WriteString(with)
			i += len(name)
			continue
		}
		sb.WriteByte(s[i])
		i++
	}
	return sb.String()
}

// pruneBroken moves the clauses that do not apply to the current source out of the contract; VerifyFunc
// reports each of them as a failed obligation of the clause's own properties.
func pruneBroken(c *Contract) {
	keep := func(cs []*Clause) []*Clause {
		var out []*Clause
		for _, cl := range cs {
			if cl.Broken != "" {
				c.BrokenClauses = append(c.BrokenClauses, cl)
			} else {
				out = append(out, cl)
			}
		}
		return out
	}
	c.Requires, c.Ensures, c.Modifies, c.Asserts, c.Shows = keep(c.Requires), keep(c.Ensures), keep(c.Modifies), keep(c.Asserts), keep(c.Shows)
	for k := range c.Invs {
		c.Invs[k] = keep(c.Invs[k])
	}
	for k := range c.Preserved {
		c.Preserved[k] = keep(c.Preserved[k])
	}
	for k, d := range c.Decr {
		if d != nil && d.Broken != "" {
			c.BrokenClauses = append(c.BrokenClauses, d)
			delete(c.Decr, k)
		}
	}
	if c.PanicsWhen != nil && c.PanicsWhen.Broken != "" {
		c.BrokenClauses = append(c.BrokenClauses, c.PanicsWhen)
		c.PanicsWhen = nil
	}
}

// markBrokenAt: a type error at line `line` of a generated clause file is charged to the clause whose
// function (or old-value helper) contains that line.
func markBrokenAt(src string, line int, msg string, contracts []*Contract) bool {
	lines := strings.Split(src, "\n")
	name := ""
	for i := line - 1; i >= 0 && i < len(lines); i-- {
		if strings.HasPrefix(lines[i], "func verifClause_") {
			name = lines[i][len("func "):]
			if j := strings.Index(name, "("); j >= 0 {
				name = name[:j]
			}
			break
		}
	}
	if name == "" {
		return false
	}
	if j := strings.Index(name, "_old"); j >= 0 {
		if _, err := fmt.Sscanf(name[j+4:], "%d", new(int)); err == nil {
			name = name[:j]
		}
	}
	found := false
	for _, c := range contracts {
		var all []*Clause
		all = append(all, c.Requires...)
		all = append(all, c.Ensures...)
		all = append(all, c.Modifies...)
		all = append(all, c.Asserts...)
		all = append(all, c.Shows...)
		for _, is := range c.Invs {
			all = append(all, is...)
		}
		for _, ps := range c.Preserved {
			all = append(all, ps...)
		}
		for _, d := range c.Decr {
			all = append(all, d)
		}
		if c.PanicsWhen != nil {
			all = append(all, c.PanicsWhen)
		}
		for _, cl := range all {
			if cl != nil && cl.FnName == name && cl.Broken == "" {
				cl.Broken = msg
				found = true
			}
		}
	}
	return found
}
