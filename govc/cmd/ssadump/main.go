package main

import (
	"fmt"
	"os"
	"strings"

	"golang.org/x/tools/go/packages"
	"golang.org/x/tools/go/ssa"
	"golang.org/x/tools/go/ssa/ssautil"
)

func main() {
	pkgPat := os.Args[1]
	want := os.Args[2:]
	cfg := &packages.Config{Mode: packages.LoadAllSyntax, Dir: "/repo", BuildFlags: []string{"-tags=verif"}}
	pkgs, err := packages.Load(cfg, pkgPat)
	if err != nil {
		panic(err)
	}
	prog, _ := ssautil.AllPackages(pkgs, ssa.NaiveForm|ssa.GlobalDebug|ssa.InstantiateGenerics)
	prog.Build()
	for f := range ssautil.AllFunctions(prog) {
		for _, w := range want {
			if strings.Contains(f.String(), w) {
				f.WriteTo(os.Stdout)
				fmt.Println()
			}
		}
	}
}
