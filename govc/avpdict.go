package main

// C17, dictionary coverage: the precondition of the assumed Marshal/Unmarshal contracts of go-diameter.
// For the static type handed to (*diam.Message).Marshal / Unmarshal, every `avp:"Name"` struct tag
// (recursively through grouped members) must be defined, with one code and a matching data type, in the
// dictionaries the CHF process loads: go-diameter's default dictionaries plus RateDictionary and
// AbmfDictionary. The dictionaries are read from the current source on every run (the XML constants of
// /repo/ccs_diameter/dict and of the go-diameter module); the obligations are decided by evaluation.

import (
	"encoding/xml"
	"fmt"
	"go/ast"
	"go/constant"
	"go/parser"
	"go/token"
	"go/types"
	"reflect"
	"sort"
	"strconv"
	"strings"

	"golang.org/x/tools/go/ssa"
)

type avpDef struct {
	Name, Type, Dict, App string
	Code, Vendor          int
}

type xmlDict struct {
	Apps []struct {
		ID   string `xml:"id,attr"`
		AVPs []struct {
			Name   string `xml:"name,attr"`
			Code   int    `xml:"code,attr"`
			Vendor int    `xml:"vendor-id,attr"`
			Data   struct {
				Type string `xml:"type,attr"`
			} `xml:"data"`
		} `xml:"avp"`
	} `xml:"application"`
}

func parseAVPDict(name, text string) ([]avpDef, error) {
	var d xmlDict
	if err := xml.Unmarshal([]byte(text), &d); err != nil {
		return nil, fmt.Errorf("dictionary %s: %v", name, err)
	}
	var out []avpDef
	for _, a := range d.Apps {
		for _, v := range a.AVPs {
			out = append(out, avpDef{Name: v.Name, Type: v.Data.Type, Dict: name, App: a.ID, Code: v.Code, Vendor: v.Vendor})
		}
	}
	return out, nil
}

func (v *Verifier) avpDictionaries() ([]avpDef, []string) {
	if v.avpDefs != nil || v.avpErrs != nil {
		return v.avpDefs, v.avpErrs
	}
	var defs []avpDef
	var errs []string
	for _, pkg := range v.prog.AllPackages() {
		path := pkg.Pkg.Path()
		if strings.Contains(path, "fiorix/go-diameter") && strings.HasSuffix(path, "/diam/dict") {
			path = "go-diameter/diam/dict"
		}
		switch path {
		case "github.com/free5gc/chf/ccs_diameter/dict":
			var names []string
			for n := range pkg.Members {
				names = append(names, n)
			}
			sort.Strings(names)
			for _, n := range names {
				c, ok := pkg.Members[n].(*ssa.NamedConst)
				if !ok || c.Value == nil || c.Value.Value == nil || c.Value.Value.Kind() != constant.String {
					continue
				}
				txt := constant.StringVal(c.Value.Value)
				if !strings.Contains(txt, "<diameter>") {
					continue
				}
				d, err := parseAVPDict(n, txt)
				if err != nil {
					errs = append(errs, err.Error())
				}
				defs = append(defs, d...)
			}
		case "go-diameter/diam/dict":
			g, ok := pkg.Members["Default"].(*ssa.Global)
			if !ok {
				errs = append(errs, "go-diameter: dict.Default not found")
				continue
			}
			file := v.fset.Position(g.Pos()).Filename
			f, err := parser.ParseFile(token.NewFileSet(), file, nil, 0)
			if err != nil {
				errs = append(errs, "go-diameter default dictionaries: "+err.Error())
				continue
			}
			for _, decl := range f.Decls {
				gd, ok := decl.(*ast.GenDecl)
				if !ok || gd.Tok != token.VAR {
					continue
				}
				for _, sp := range gd.Specs {
					vs, ok := sp.(*ast.ValueSpec)
					if !ok || len(vs.Names) != 1 || len(vs.Values) != 1 {
						continue
					}
					lit, ok := vs.Values[0].(*ast.BasicLit)
					if !ok || lit.Kind != token.STRING {
						continue
					}
					txt, err := strconv.Unquote(lit.Value)
					if err != nil || !strings.Contains(txt, "<diameter>") {
						continue
					}
					d, err := parseAVPDict("go-diameter:"+vs.Names[0].Name, txt)
					if err != nil {
						errs = append(errs, err.Error())
					}
					defs = append(defs, d...)
				}
			}
		}
	}
	if len(defs) == 0 {
		errs = append(errs, "no Diameter dictionary found in the program")
	}
	v.avpDefs, v.avpErrs = defs, errs
	return defs, errs
}

// avpGoType: the dictionary data type a Go member type stands for ("" when it is not one of
// go-diameter's datatype.* types or a grouped struct: such members are not type-checked)
func avpGoType(t types.Type) string {
	for {
		if p, ok := t.(*types.Pointer); ok {
			t = p.Elem()
			continue
		}
		if s, ok := t.(*types.Slice); ok {
			t = s.Elem()
			continue
		}
		break
	}
	if n, ok := t.(*types.Named); ok {
		if n.Obj().Pkg() != nil && strings.Contains(n.Obj().Pkg().Path(), "fiorix/go-diameter") && strings.HasSuffix(n.Obj().Pkg().Path(), "/diam/datatype") {
			return n.Obj().Name()
		}
		if _, ok := n.Underlying().(*types.Struct); ok {
			return "Grouped"
		}
	}
	return ""
}

// avpObligations emits the dictionary obligations for the message type t at a Marshal/Unmarshal site.
var avpProps = []string{"C17"}

func (ex *Exec) avpObligations(fr *Frame, pc *Term, pos token.Pos, t types.Type, what string) {
	defs, errs := ex.V.avpDictionaries()
	for _, e := range errs {
		ex.oblige(fr, "avp", what+": "+e, pos, pc, False, avpProps)
	}
	byName := map[string][]avpDef{}
	byCode := map[[2]int]map[string]bool{}
	for _, d := range defs {
		byName[d.Name] = append(byName[d.Name], d)
		k := [2]int{d.Code, d.Vendor}
		if byCode[k] == nil {
			byCode[k] = map[string]bool{}
		}
		byCode[k][d.Name] = true
	}
	seen := map[string]bool{}
	var walk func(t types.Type)
	walk = func(t types.Type) {
		for {
			if p, ok := t.(*types.Pointer); ok {
				t = p.Elem()
				continue
			}
			if s, ok := t.(*types.Slice); ok {
				t = s.Elem()
				continue
			}
			break
		}
		n, ok := t.(*types.Named)
		if !ok {
			return
		}
		st, ok := n.Underlying().(*types.Struct)
		if !ok || seen[n.String()] {
			return
		}
		seen[n.String()] = true
		tags := map[string]string{}
		for i := 0; i < st.NumFields(); i++ {
			f := st.Field(i)
			name := reflect.StructTag(st.Tag(i)).Get("avp")
			if name == "" || name == "-" {
				continue
			}
			name = strings.Split(name, ",")[0]
			label := fmt.Sprintf("%s: %s.%s `avp:%q`", what, n.Obj().Name(), f.Name(), name)
			if prev, dup := tags[name]; dup {
				n0 := len(ex.obls)
				ex.oblige(fr, "avp", label+" (tag unique in its struct)", pos, pc, False, avpProps)
				if len(ex.obls) > n0 {
					ex.obls[len(ex.obls)-1].Note = "dictionary check: " + label + " - the AVP name is also the tag of member " + prev
				}
			} else {
				tags[name] = f.Name()
			}
			ds := byName[name]
			if len(ds) == 0 {
				n0 := len(ex.obls)
				ex.oblige(fr, "avp", label, pos, pc, False, avpProps)
				if len(ex.obls) > n0 {
					ex.obls[len(ex.obls)-1].Note = "dictionary check: " + label + " - not defined in any loaded dictionary"
				}
				continue
			}
			ok := true
			why := ""
			for _, d := range ds[1:] {
				// (a vendor-id stated in one dictionary and omitted in another is not counted as a difference)
				if d.Code != ds[0].Code || d.Type != ds[0].Type {
					ok, why = false, fmt.Sprintf(" - defined differently in %s (code %d, %s) and %s (code %d, %s)", ds[0].Dict, ds[0].Code, ds[0].Type, d.Dict, d.Code, d.Type)
				}
			}
			if ok {
				var others []string
				for o := range byCode[[2]int{ds[0].Code, ds[0].Vendor}] {
					if o != name {
						others = append(others, o)
					}
				}
				if len(others) > 0 {
					sort.Strings(others)
					ok, why = false, fmt.Sprintf(" - code %d (vendor %d) is also the code of %s", ds[0].Code, ds[0].Vendor, strings.Join(others, ", "))
				}
			}
			if ok {
				if gt := avpGoType(f.Type()); gt != "" && avpWireClass(gt) != avpWireClass(ds[0].Type) {
					ok, why = false, fmt.Sprintf(" - member type %s, dictionary type %s (%s)", gt, ds[0].Type, ds[0].Dict)
				}
			}
			n0 := len(ex.obls)
			ex.oblige(fr, "avp", label, pos, pc, BoolC(ok), avpProps)
			if !ok && len(ex.obls) > n0 {
				ex.obls[len(ex.obls)-1].Note = "dictionary check (decided by evaluation): " + label + why
			}
			walk(f.Type())
		}
	}
	walk(t)
}

// avpWireClass: data types with the same wire format (a sequence of octets that go-diameter converts
// between) count as matching; every other type must match exactly
func avpWireClass(t string) string {
	switch t {
	case "OctetString", "UTF8String", "DiameterIdentity", "DiameterURI", "IPFilterRule":
		return "octets"
	}
	return t
}
