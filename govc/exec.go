package main

// Symbolic executor over go/ssa (naive form): forward execution with state
// merging at joins, loops cut at their headers by invariants.

import (
	"crypto/sha1"
	"fmt"
	"go/constant"
	"go/token"
	"go/types"
	"sort"
	"strings"

	"golang.org/x/tools/go/ssa"
)

// ---------------------------------------------------------------- state

type deferred struct {
	call *ssa.CallCommon
	args []Value
	fnv  Value
}

type State struct {
	cells  map[*ssa.Alloc]Value
	heap   map[string]*Term
	next   *Term
	defers []deferred
}

func (s *State) clone() *State {
	n := &State{cells: make(map[*ssa.Alloc]Value, len(s.cells)), heap: make(map[string]*Term, len(s.heap)), next: s.next}
	for k, v := range s.cells {
		n.cells[k] = v
	}
	for k, v := range s.heap {
		n.heap[k] = v
	}
	n.defers = append([]deferred{}, s.defers...)
	return n
}

var compSorts = map[string]*Sort{}

// comp returns the current term of a heap component (initial symbol if untouched).
func (s *State) comp(name string, srt *Sort) *Term {
	if t, ok := s.heap[name]; ok {
		return t
	}
	compSorts[name] = srt
	return Var("init$"+name, srt)
}

func (s *State) setComp(name string, t *Term) {
	compSorts[name] = t.Sort
	s.heap[name] = t
}

func hCompName(t types.Type, leaf int) string {
	n := fmt.Sprintf("H|%s|%d", typeKey(t), leaf)
	if lp := leafPtr(t); leaf < len(lp) && lp[leaf] {
		compPtr[n] = true
	}
	if ls := leafSize(t); leaf < len(ls) && ls[leaf] {
		compSize[n] = true
	}
	return n
}

func eCompName(t types.Type, leaf int) string {
	n := fmt.Sprintf("E|%s|%d", typeKey(t), leaf)
	if lp := leafPtr(t); leaf < len(lp) && lp[leaf] {
		compPtr[n] = true
	}
	if ls := leafSize(t); leaf < len(ls) && ls[leaf] {
		compSize[n] = true
	}
	return n
}
func bCompName(t types.Type, leaf int) string {
	return fmt.Sprintf("B|%s|%d", types.TypeString(t, nil), leaf)
}

// ---------------------------------------------------------------- lvalues

type Step struct {
	Field int
	Index *Term
	IsIdx bool
	ElemT types.Type // element type for index steps
}

type LValue struct {
	Cell *ssa.Alloc // cell root
	T    types.Type // root object type (heap root / element type for Elem)
	P    *Term      // heap object id, or backing array id for Elem
	Idx  *Term      // absolute index for Elem roots
	Elem bool
	Path []Step
}

func (l *LValue) String() string {
	var sb strings.Builder
	switch {
	case l.Cell != nil:
		fmt.Fprintf(&sb, "cell(%s@%d)", l.Cell.Comment, l.Cell.Pos())
	case l.Elem:
		fmt.Fprintf(&sb, "elem(%s,%d,%d)", typeKey(l.T), l.P.id, l.Idx.id)
	default:
		fmt.Fprintf(&sb, "heap(%s,%d)", typeKey(l.T), l.P.id)
	}
	for _, s := range l.Path {
		if s.IsIdx {
			fmt.Fprintf(&sb, "[%d]", s.Index.id)
		} else {
			fmt.Fprintf(&sb, ".%d", s.Field)
		}
	}
	return sb.String()
}

func (l *LValue) extend(s Step) *LValue {
	n := *l
	n.Path = append(append([]Step{}, l.Path...), s)
	return &n
}

func readPath(v Value, path []Step) Value {
	for _, s := range path {
		if s.IsIdx {
			a := v.(VArr)
			ls := make([]*Term, len(a.Leaves))
			for i, l := range a.Leaves {
				ls[i] = Select(l, s.Index)
			}
			v = fromLeaves(s.ElemT, ls)
		} else {
			v = v.(VStruct).F[s.Field]
		}
	}
	return v
}

func writePath(root Value, path []Step, nv Value) Value {
	if len(path) == 0 {
		return nv
	}
	s := path[0]
	if s.IsIdx {
		a := root.(VArr)
		ls := make([]*Term, len(a.Leaves))
		for i, l := range a.Leaves {
			ls[i] = Select(l, s.Index)
		}
		old := fromLeaves(s.ElemT, ls)
		upd := toLeaves(writePath(old, path[1:], nv))
		out := make([]*Term, len(a.Leaves))
		for i, l := range a.Leaves {
			out[i] = Store(l, s.Index, upd[i])
		}
		return VArr{out, a.N}
	}
	st := root.(VStruct)
	fs := append([]Value{}, st.F...)
	fs[s.Field] = writePath(st.F[s.Field], path[1:], nv)
	return VStruct{fs}
}

// ---------------------------------------------------------------- obligations

type Obligation struct {
	ReplaySrc string // source of the generated replay test (without clause evaluation)
	ReplayDir string // package directory the replay test runs in
	Confirmed int    // thorough tier: solvers that gave the same definitive answer
	Name      string
	Kind      string
	Props     []string
	Fn        string
	Pos       string
	Src       string
	NAssume   int // number of assumptions visible
	PC        *Term
	Goal      *Term
	Note      string
	// results
	Status  string // proved | failed | unknown | error
	Solver  string
	Ms      int64
	Model   map[string]string
	Detail  string
	Vacuity bool // expected sat (reachability check)
	PrePC      *Term // vacuity after a modular call: the path condition before the call ...
	PreNAssume int   // ... and the number of assumptions in force there (failed only if that state was reachable)
}

// ---------------------------------------------------------------- executor

type Exec struct {
	V               *Verifier
	assumptions     []*Term
	obls            []*Obligation
	nameCount       map[string]int
	curFn           *ssa.Function // top-level function being verified
	curContract     *Contract
	strict          bool // strict slicing (high <= len)
	safetyProps     []string
	writeLog        map[string]bool // heap components written (for havoc fail-safe)
	frames          []*Frame
	lastSpecState   *State
	lastPreserved   [2]Value
	keepFacts       []*Term // facts about uninterpreted results that survive specification evaluation
	lastPreservedSt *State
	topFrame        *Frame
	recActive       map[*ssa.Function]string
	recDone         map[string]bool
	recParams       []Value
	globalAxioms    []*Term
	curInstr        ssa.Instruction
}

type Frame struct {
	fn              *ssa.Function
	vals            map[ssa.Value]Value
	params          []Value // entry values
	depth           int
	spec            bool // evaluating specification code: no obligations
	pcBase          *Term
	contract        *Contract
	entry           *State
	top             bool
	results         []retInfo
	edgeConds       map[*ssa.BasicBlock]map[*ssa.BasicBlock]*Term
	freeVars        []Value
	label           string // prefix for obligation labels when inlined
	loopRecs        map[*loopInfo]*loopRec
	curBlock        *ssa.BasicBlock
	asserted        map[*Clause]bool
	entryNext       *Term // allocation counter when the function was entered
	unrolling       map[*ssa.BasicBlock]*[]incoming
	modTargetsCache []modTarget
	modTargetsDone  bool
}

type retInfo struct {
	pc  *Term
	val Value
	st  *State
}

func (ex *Exec) assume(pc, fact *Term) {
	t := Implies(pc, fact)
	if t.IsTrue() {
		return
	}
	ex.assumptions = append(ex.assumptions, t)
}

// assumeAlways: an unconditional fact about an uninterpreted term (e.g. the range of encoder.Len()); kept
// even when it arises while specification code is evaluated
func (ex *Exec) assumeAlways(fact *Term) {
	if fact.IsTrue() {
		return
	}
	ex.assumptions = append(ex.assumptions, fact)
	ex.keepFacts = append(ex.keepFacts, fact)
}

func (ex *Exec) oblige(fr *Frame, kind, label string, pos token.Pos, pc, goal *Term, props []string) {
	if fr.spec {
		return
	}
	if fr.pcBase != nil {
		pc = And(fr.pcBase, pc)
	}
	if Implies(pc, goal).IsTrue() {
		// trivially true: still counted? keep out of the solver; record as discharged by simplifier
		ex.recordTrivial(fr, kind, label, pos, props)
		return
	}
	name := ex.oblName(fr, kind, label)
	o := &Obligation{Name: name, Kind: kind, Props: props, Fn: ex.curFn.String(), NAssume: len(ex.assumptions), PC: pc, Goal: goal}
	if pos.IsValid() {
		p := ex.V.fset.Position(pos)
		o.Pos = fmt.Sprintf("%s:%d", p.Filename, p.Line)
	}
	ex.obls = append(ex.obls, o)
	// once checked, the goal may be assumed (post-conditions are independent of each other: not assumed)
	if kind != "post" && kind != "avp" {
		ex.assume(pc, goal)
	}
}

func (ex *Exec) recordTrivial(fr *Frame, kind, label string, pos token.Pos, props []string) {
	name := ex.oblName(fr, kind, label)
	o := &Obligation{Name: name, Kind: kind, Props: props, Fn: ex.curFn.String(), Status: "proved", Solver: "simplifier", PC: True, Goal: True}
	ex.obls = append(ex.obls, o)
}

func (ex *Exec) oblName(fr *Frame, kind, label string) string {
	label = strings.Join(strings.Fields(label), " ")
	if len(label) > 90 {
		h := sha1.Sum([]byte(label))
		label = fmt.Sprintf("%s~%x", label[:80], h[:3])
	}
	if fr.label != "" {
		label = fr.label + ">" + label
	}
	base := fmt.Sprintf("%s#%s:%s", relName(ex.curFn), kind, label)
	ex.nameCount[base]++
	return fmt.Sprintf("%s#%d", base, ex.nameCount[base])
}

func relName(fn *ssa.Function) string {
	if fn.Pkg != nil {
		return fn.Pkg.Pkg.Name() + "." + fn.RelString(fn.Pkg.Pkg)
	}
	return fn.String()
}

// ---------------------------------------------------------------- loops

type loopInfo struct {
	header *ssa.BasicBlock
	body   map[*ssa.BasicBlock]bool
	ord    int
}

func dominators(fn *ssa.Function) map[*ssa.BasicBlock]map[*ssa.BasicBlock]bool {
	dom := map[*ssa.BasicBlock]map[*ssa.BasicBlock]bool{}
	all := map[*ssa.BasicBlock]bool{}
	for _, b := range fn.Blocks {
		all[b] = true
	}
	for _, b := range fn.Blocks {
		if b.Index == 0 {
			dom[b] = map[*ssa.BasicBlock]bool{b: true}
		} else {
			m := map[*ssa.BasicBlock]bool{}
			for k := range all {
				m[k] = true
			}
			dom[b] = m
		}
	}
	for changed := true; changed; {
		changed = false
		for _, b := range fn.Blocks {
			if b.Index == 0 {
				continue
			}
			var inter map[*ssa.BasicBlock]bool
			for _, p := range b.Preds {
				if inter == nil {
					inter = map[*ssa.BasicBlock]bool{}
					for k := range dom[p] {
						inter[k] = true
					}
				} else {
					for k := range inter {
						if !dom[p][k] {
							delete(inter, k)
						}
					}
				}
			}
			if inter == nil {
				inter = map[*ssa.BasicBlock]bool{}
			}
			inter[b] = true
			if len(inter) != len(dom[b]) {
				dom[b] = inter
				changed = true
			}
		}
	}
	return dom
}

func findLoops(fn *ssa.Function) []*loopInfo {
	dom := dominators(fn)
	byHeader := map[*ssa.BasicBlock]*loopInfo{}
	for _, u := range fn.Blocks {
		for _, h := range u.Succs {
			if dom[u][h] { // back edge u -> h
				li := byHeader[h]
				if li == nil {
					li = &loopInfo{header: h, body: map[*ssa.BasicBlock]bool{h: true}}
					byHeader[h] = li
				}
				// nodes reaching u without passing h
				stack := []*ssa.BasicBlock{u}
				for len(stack) > 0 {
					x := stack[len(stack)-1]
					stack = stack[:len(stack)-1]
					if li.body[x] {
						continue
					}
					li.body[x] = true
					for _, p := range x.Preds {
						stack = append(stack, p)
					}
				}
			}
		}
	}
	var out []*loopInfo
	for _, li := range byHeader {
		out = append(out, li)
	}
	// source order: by position of the loop statement if known, else block index
	sort.Slice(out, func(i, j int) bool { return loopKey(out[i]) < loopKey(out[j]) })
	for i, li := range out {
		li.ord = i
	}
	return out
}

func loopKey(li *loopInfo) int {
	// smallest source position among instructions of the loop body
	best := int(^uint(0) >> 1)
	for b := range li.body {
		for _, in := range b.Instrs {
			if _, ok := in.(*ssa.DebugRef); ok {
				continue
			}
			if p := in.Pos(); p.IsValid() && int(p) < best {
				best = int(p)
			}
		}
	}
	return best
}

// ---------------------------------------------------------------- running a body

func rpo(fn *ssa.Function, back map[[2]int]bool) []*ssa.BasicBlock {
	seen := map[*ssa.BasicBlock]bool{}
	var post []*ssa.BasicBlock
	var dfs func(b *ssa.BasicBlock)
	dfs = func(b *ssa.BasicBlock) {
		seen[b] = true
		for _, s := range b.Succs {
			if back[[2]int{b.Index, s.Index}] || seen[s] {
				continue
			}
			dfs(s)
		}
		post = append(post, b)
	}
	dfs(fn.Blocks[0])
	for i, j := 0, len(post)-1; i < j; i, j = i+1, j-1 {
		post[i], post[j] = post[j], post[i]
	}
	return post
}

type incoming struct {
	from *ssa.BasicBlock
	pc   *Term
	st   *State
}

func (ex *Exec) mergeStates(ins []incoming) (*Term, *State) {
	if len(ins) == 1 {
		return ins[0].pc, ins[0].st
	}
	var pcs []*Term
	for _, in := range ins {
		pcs = append(pcs, in.pc)
	}
	pc := Or(pcs...)
	base := ins[len(ins)-1].st.clone()
	for i := len(ins) - 2; i >= 0; i-- {
		in := ins[i]
		// cells
		for k, v := range in.st.cells {
			bv, ok := base.cells[k]
			if !ok {
				base.cells[k] = v
				continue
			}
			if !sameValue(v, bv) {
				base.cells[k] = iteValue(in.pc, v, bv)
			}
		}
		keys := map[string]bool{}
		for k := range in.st.heap {
			keys[k] = true
		}
		for k := range base.heap {
			keys[k] = true
		}
		for k := range keys {
			a := in.st.comp(k, compSorts[k])
			b := base.comp(k, compSorts[k])
			if a != b {
				base.heap[k] = Ite(in.pc, a, b)
			}
		}
		if in.st.next != base.next {
			// a merged allocation counter gets its own symbol (so that later identifiers keep the form
			// counter + k) with the common lower bound of both sides
			merged := Ite(in.pc, in.st.next, base.next)
			nn := Fresh("next", BV64)
			nextSyms[nn] = true
			if lb, ok := commonNextBound(in.st.next, base.next); ok {
				nextGE[nn] = lb
			}
			ex.assume(True, Eq(nn, merged))
			base.next = nn
		}
		if len(in.st.defers) != len(base.defers) {
			panic(unsupported("conditional defer (different defer stacks at a join)"))
		}
	}
	return pc, base
}

type bodyRT struct {
	loops   []*loopInfo
	back    map[[2]int]bool
	headers map[*ssa.BasicBlock]*loopInfo
	order   []*ssa.BasicBlock
}

// runBody executes fn's body from the given state; returns are collected in fr.results.
func (ex *Exec) runBody(fr *Frame, st0 *State, pc0 *Term) {
	fn := fr.fn
	if len(fn.Blocks) == 0 {
		panic(unsupported("function without body: " + fn.String()))
	}
	rt := &bodyRT{back: map[[2]int]bool{}, headers: map[*ssa.BasicBlock]*loopInfo{}}
	rt.loops = findLoops(fn)
	for _, li := range rt.loops {
		rt.headers[li.header] = li
		for _, p := range li.header.Preds {
			if li.body[p] {
				rt.back[[2]int{p.Index, li.header.Index}] = true
			}
		}
	}
	rt.order = rpo(fn, rt.back)
	in := map[*ssa.BasicBlock][]incoming{}
	in[fn.Blocks[0]] = []incoming{{nil, pc0, st0}}
	fr.edgeConds = map[*ssa.BasicBlock]map[*ssa.BasicBlock]*Term{}
	fr.unrolling = map[*ssa.BasicBlock]*[]incoming{}
	ex.frames = append(ex.frames, fr)
	defer func() { ex.frames = ex.frames[:len(ex.frames)-1] }()
	ex.execBlocks(fr, rt, rt.order, in, nil, nil)
}

type exitFn func(from, to *ssa.BasicBlock, pc *Term, st *State)

// execBlocks runs the given blocks (in reverse post-order); edges leaving `region` go to onExit.
func (ex *Exec) execBlocks(fr *Frame, rt *bodyRT, blocks []*ssa.BasicBlock, in map[*ssa.BasicBlock][]incoming,
	region map[*ssa.BasicBlock]bool, onExit exitFn) {
	flow := func(from, to *ssa.BasicBlock, pc *Term, st *State) {
		if pc.IsFalse() {
			return
		}
		if rt.back[[2]int{from.Index, to.Index}] {
			if lst := fr.unrolling[to]; lst != nil {
				*lst = append(*lst, incoming{from, pc, st})
				return
			}
			ex.loopBackEdge(fr, rt.headers[to], pc, st)
			return
		}
		if region != nil && !region[to] {
			onExit(from, to, pc, st)
			return
		}
		in[to] = append(in[to], incoming{from, pc, st})
	}
	for _, b := range blocks {
		fr.curBlock = b
		ins := in[b]
		if len(ins) == 0 {
			continue
		}
		pc, st := ex.mergeStates(ins)
		delete(in, b)
		if pc.IsFalse() {
			continue
		}
		st = st.clone()
		if li, ok := rt.headers[b]; ok && fr.unrolling[b] == nil {
			if n := ex.unrollCount(fr, li, len(rt.loops)); n > 0 {
				ex.unrollLoop(fr, rt, li, n, pc, st, flow)
				continue
			}
			pc, st = ex.cutLoop(fr, li, pc, st, len(rt.loops))
		}
		// phi edge conditions
		ec := map[*ssa.BasicBlock]*Term{}
		for _, i := range ins {
			if i.from != nil {
				if o, ok := ec[i.from]; ok {
					ec[i.from] = Or(o, i.pc)
				} else {
					ec[i.from] = i.pc
				}
			}
		}
		fr.edgeConds[b] = ec
		alive := true
		for _, instr := range b.Instrs {
			if !alive {
				break
			}
			switch x := instr.(type) {
			case *ssa.If:
				c := ex.val(fr, st, x.Cond).(VBool).T
				t, f := And(pc, c), And(pc, Not(c))
				flow(b, b.Succs[0], t, st)
				flow(b, b.Succs[1], f, st.clone())
				alive = false
			case *ssa.Jump:
				flow(b, b.Succs[0], pc, st)
				alive = false
			case *ssa.Return:
				var rv Value
				if len(x.Results) == 1 {
					rv = ex.val(fr, st, x.Results[0])
				} else {
					fs := make([]Value, len(x.Results))
					for i, r := range x.Results {
						fs[i] = ex.val(fr, st, r)
					}
					rv = VTuple{fs}
				}
				fr.results = append(fr.results, retInfo{pc, rv, st})
				alive = false
			case *ssa.Panic:
				ex.doPanic(fr, st, pc, x)
				alive = false
			default:
				ex.checkAsserts(fr, st, pc, instr)
				ex.curInstr = instr
				pc = ex.step(fr, st, pc, instr)
				if pc.IsFalse() {
					alive = false
				}
			}
		}
	}
}

// unrollCount: number of iterations to unroll this loop (0 = cut by invariants)
func (ex *Exec) unrollCount(fr *Frame, li *loopInfo, nloops int) int {
	c := ex.contractOfFrame(fr)
	if c == nil || c.NLoops != nloops {
		return 0
	}
	if fr.top && c.UnrollInlined[li.ord] {
		return 0
	}
	return c.Unroll[li.ord]
}

// unrollLoop executes the loop body n times; reaching the header an (n+1)-th time is an
// "unwind" obligation, so a discharged unrolling is complete, not bounded.
func (ex *Exec) unrollLoop(fr *Frame, rt *bodyRT, li *loopInfo, n int, pc *Term, st *State, outer func(from, to *ssa.BasicBlock, pc *Term, st *State)) {
	// SSA values defined inside the loop must not be used after it (they would be overwritten)
	for b := range li.body {
		for _, in := range b.Instrs {
			v, ok := in.(ssa.Value)
			if !ok || v.Referrers() == nil {
				continue
			}
			for _, r := range *v.Referrers() {
				if !li.body[r.Block()] {
					panic(unsupported(fmt.Sprintf("unroll: value %s defined in loop %d is used after it", v.Name(), li.ord)))
				}
			}
		}
	}
	var bodyOrder []*ssa.BasicBlock
	for _, b := range rt.order {
		if li.body[b] {
			bodyOrder = append(bodyOrder, b)
		}
	}
	cur := []incoming{{nil, pc, st}}
	// n body iterations need n+1 evaluations of the header
	// the last pass only decides whether the loop would go on: when the header is a single test block
	// (one successor inside the loop, one outside) only that block is executed and the edge into the body
	// is what the unwind obligation rules out; the body is not executed an (n+1)-th time
	simpleHeader := false
	if len(li.header.Succs) == 2 {
		in0, in1 := li.body[li.header.Succs[0]], li.body[li.header.Succs[1]]
		simpleHeader = in0 != in1
	}
	for iter := 0; iter <= n && len(cur) > 0; iter++ {
		var backIn []incoming
		fr.unrolling[li.header] = &backIn
		inLocal := map[*ssa.BasicBlock][]incoming{li.header: cur}
		if iter == n && simpleHeader {
			hdr := map[*ssa.BasicBlock]bool{li.header: true}
			ex.execBlocks(fr, rt, []*ssa.BasicBlock{li.header}, inLocal, hdr, func(from, to *ssa.BasicBlock, p *Term, s *State) {
				if li.body[to] {
					backIn = append(backIn, incoming{from, p, s}) // the loop would continue
					return
				}
				outer(from, to, p, s)
			})
			delete(fr.unrolling, li.header)
			cur = backIn
			break
		}
		ex.execBlocks(fr, rt, bodyOrder, inLocal, li.body, func(from, to *ssa.BasicBlock, p *Term, s *State) {
			outer(from, to, p, s)
		})
		delete(fr.unrolling, li.header)
		cur = backIn
	}
	if len(cur) > 0 {
		var pcs []*Term
		for _, c := range cur {
			pcs = append(pcs, c.pc)
		}
		c := ex.contractOfFrame(fr)
		ex.oblige(fr, "unwind", fmt.Sprintf("loop %d: at most %d iterations", li.ord, n), li.header.Instrs[0].Pos(), Or(pcs...), False, c.Props)
	}
}

// checkAsserts: mid-function assertions anchored at a source statement: proved when the
// statement is first reached, assumed afterwards.
func (ex *Exec) checkAsserts(fr *Frame, st *State, pc *Term, instr ssa.Instruction) {
	if !fr.top || ex.curContract == nil || len(ex.curContract.Asserts) == 0 || fr.spec {
		return
	}
	pos := instr.Pos()
	if !pos.IsValid() {
		return
	}
	if _, ok := instr.(*ssa.DebugRef); ok {
		return
	}
	p := ex.V.fset.Position(pos)
	for _, a := range ex.curContract.Asserts {
		if fr.asserted[a] || p.Filename != a.AnchorFile || p.Offset < a.AnchorOff || p.Offset >= a.AnchorEndOff {
			continue
		}
		if fr.asserted == nil {
			fr.asserted = map[*Clause]bool{}
		}
		fr.asserted[a] = true
		t := ex.evalClause(fr, st, pc, a, nil)
		if a.Assumed {
			ex.assume(pc, t)
			ex.V.assumedAt[ex.curContract.Func+": at \""+a.Anchor+"\" assume "+a.Text] = true
			continue
		}
		ex.oblige(fr, "assert", a.Anchor+": "+a.Text, pos, pc, t, a.Props)
	}
}

// ---------------------------------------------------------------- values

func (ex *Exec) val(fr *Frame, st *State, v ssa.Value) Value {
	switch x := v.(type) {
	case *ssa.Const:
		return ex.constVal(x)
	case *ssa.Global:
		return VPtr{T: ex.V.globalID(x)}
	case *ssa.Function:
		return VFunc{Fn: x}
	case *ssa.Builtin:
		return VOpaque{Const(0, 64)}
	case *ssa.FreeVar:
		for i, fv := range fr.fn.FreeVars {
			if fv == x {
				return fr.freeVars[i]
			}
		}
	case *ssa.Alloc:
		if r, ok := fr.vals[x]; ok {
			return r
		}
		panic("alloc value not evaluated: " + x.String())
	}
	if r, ok := fr.vals[v]; ok {
		return r
	}
	panic(fmt.Sprintf("value not evaluated: %s = %s in %s", v.Name(), v.String(), fr.fn))
}

func (ex *Exec) constVal(c *ssa.Const) Value {
	t := c.Type()
	if c.Value == nil {
		return zeroValue(t)
	}
	switch u := under(t).(type) {
	case *types.Basic:
		switch {
		case u.Info()&types.IsBoolean != 0:
			return VBool{BoolC(constant.BoolVal(c.Value))}
		case u.Info()&types.IsString != 0:
			return VStr{StrLit(constant.StringVal(c.Value))}
		case u.Info()&types.IsInteger != 0:
			w, _ := intWidth(u)
			if i, ok := constant.Int64Val(constant.ToInt(c.Value)); ok {
				return VBV{Const(uint64(i), w)}
			}
			if i, ok := constant.Uint64Val(constant.ToInt(c.Value)); ok {
				return VBV{Const(i, w)}
			}
		case u.Info()&types.IsFloat != 0:
			f, _ := constant.Float64Val(c.Value)
			return VOpaque{App(fmt.Sprintf("float$%v", f), BV64)}
		}
	}
	panic(unsupported("constant " + c.String()))
}

// convInt converts a bit-vector between integer types.
func convInt(t *Term, from, to types.Type) *Term {
	tb, ok := under(to).(*types.Basic)
	if !ok {
		panic("convInt to " + to.String())
	}
	w, _ := intWidth(tb)
	if w == 0 {
		panic("convInt width " + to.String())
	}
	if t.Sort.W >= w {
		return Extract(w-1, 0, t)
	}
	if isSigned(from) {
		return SExt(t, w)
	}
	return ZExt(t, w)
}

// nextChain: lower bounds (counter symbol, offset) of an allocation counter term, nearest first
func nextChain(t *Term) []idBound {
	var out []idBound
	b, k, ok := splitAddConst(t)
	if !ok || !nextSyms[b] {
		return nil
	}
	out = append(out, idBound{b, k})
	cur := b
	for d := 0; d < 64; d++ {
		g, ok := nextGE[cur]
		if !ok {
			break
		}
		out = append(out, g)
		cur = g.base
	}
	return out
}

func commonNextBound(a, b *Term) (idBound, bool) {
	ca, cb := nextChain(a), nextChain(b)
	for _, x := range ca {
		for _, y := range cb {
			if x.base == y.base {
				k := x.k
				if y.k < k {
					k = y.k
				}
				return idBound{x.base, k}, true
			}
		}
	}
	return idBound{}, false
}
