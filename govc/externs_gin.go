package main

// Assumed contracts: gin.Context as the HTTP response sink. Ghost state (package variables declared in the
// contract file of the package under verification):
//   ghostHttpStatus int    the status code of the last response written
//   ghostHttpBody   bool   the last response carried a body
//   ghostHttpWrites int    number of responses written

import (
	"fmt"
	"go/token"
	"go/types"
	"os"

	"golang.org/x/tools/go/ssa"
)

func init() {
	respond := func(withBody bool) externFn {
		return func(ex *Exec, fr *Frame, st *State, pc *Term, fn *ssa.Function, args []Value, pos token.Pos) (Value, *Term) {
			ex.safety(fr, "nil", pos, pc, Not(Eq(args[0].(VPtr).T, C64(0))))
			code := args[1].(VBV).T
			if g, ok := ex.ghostVar(fr, "ghostHttpStatus"); ok {
				ex.ghostStore(st, g, VBV{code})
			}
			if g, ok := ex.ghostVar(fr, "ghostHttpBody"); ok {
				ex.ghostStore(st, g, VBool{BoolC(withBody)})
			}
			if g, ok := ex.ghostVar(fr, "ghostHttpWrites"); ok {
				cur := ex.ghostLoad(st, pc, g).(VBV).T
				ex.ghostStore(st, g, VBV{Add(cur, C64(1))})
			}
			return VTuple{}, pc
		}
	}
	pre := "(*github.com/gin-gonic/gin.Context)."
	regExtern(pre+"JSON", "gin.Context.JSON(code, obj): writes a response with that status and a body (ghostHttpStatus, ghostHttpBody)", respond(true))
	regExtern(pre+"String", "gin.Context.String(code, ...): writes a response with that status and a body", respond(true))
	regExtern(pre+"Data", "gin.Context.Data(code, ...): writes a response with that status and a body", respond(true))
	for _, m := range []string{"JSON", "String", "Data", "Status"} {
		// the ghost response state (an int and a bool global of the package under verification)
		externWrites[pre+m] = []string{hCompName(types.Typ[types.Int], 0), hCompName(types.Typ[types.Bool], 0)}
	}
	regExtern(pre+"Status", "gin.Context.Status(code): sets the status of a response without body", respond(false))
	regExtern(pre+"Header", "gin.Context.Header: no effect on modelled state", pureOpaque)
	regExtern(pre+"Param", "gin.Context.Param: an arbitrary string", pureOpaque)
	regExtern(pre+"GetRawData", "gin.Context.GetRawData: arbitrary bytes or an error", pureOpaque)
	_ = types.Typ
}

func init() {
	regExtern("github.com/free5gc/chf/internal/sbi.ServerChf.Processor", "ServerChf.Processor(): the application's processor, non-nil (set once at start-up)",
		func(ex *Exec, fr *Frame, st *State, pc *Term, fn *ssa.Function, args []Value, pos token.Pos) (Value, *Term) {
			p := Fresh("app.processor", BV64)
			ex.assume(pc, And(Not(Eq(p, C64(0))), ULt(p, st.next)))
			return VPtr{T: p}, pc
		})
}

// ---- routing (C13) ---------------------------------------------------------------------------------
// Ghost component G|gin.guarded: the router groups on which an authorisation middleware has been
// installed (RouterGroup.Use with a handler whose body calls (*RouterAuthorizationCheck).Check).
// Assumed gin semantics: a middleware installed on a group with Use runs before every handler
// registered on that group *afterwards*; Group() creates a group that inherits its parent's middleware.

const compGuarded = "G|gin.guarded"

func init() {
	compSorts[compGuarded] = heldSort
	objectKeyedGhost[compGuarded] = true
	grp := "(*github.com/gin-gonic/gin.RouterGroup)."
	regExtern(grp+"Group", "RouterGroup.Group(prefix): a new group that inherits the middleware of its parent",
		func(ex *Exec, fr *Frame, st *State, pc *Term, fn *ssa.Function, args []Value, pos token.Pos) (Value, *Term) {
			parent := lockID(args[0])
			p := ex.alloc(st, pc)
			if os.Getenv("GOVC_DEBUG_GIN") != "" {
				fmt.Fprintf(os.Stderr, "gin.Group parent %s new %s\n", parent, p)
			}
			g := st.comp(compGuarded, heldSort)
			ex.noteWrite(compGuarded)
			st.setComp(compGuarded, Store(g, Mul(p, C64(4096)), Select(g, parent)))
			return VPtr{T: p}, pc
		})
	externWrites[grp+"Group"] = []string{"next", compGuarded}
	regExtern(grp+"Use", "RouterGroup.Use(handlers...): installs the middleware; the group counts as guarded when a handler is a function literal whose body calls (*RouterAuthorizationCheck).Check on its gin context (read from the call site in the current source)",
		func(ex *Exec, fr *Frame, st *State, pc *Term, fn *ssa.Function, args []Value, pos token.Pos) (Value, *Term) {
			id := lockID(args[0])
			if os.Getenv("GOVC_DEBUG_GIN") != "" {
				fmt.Fprintf(os.Stderr, "gin.Use on %s auth=%v site=%v\n", id, usesAuthMiddleware(ex.curInstr), ex.curInstr)
			}
			if usesAuthMiddleware(ex.curInstr) {
				g := st.comp(compGuarded, heldSort)
				ex.noteWrite(compGuarded)
				st.setComp(compGuarded, Store(g, id, True))
			}
			return freshResults(ex, st, pc, fn, "gin.use"), pc
		})
	externWrites[grp+"Use"] = []string{compGuarded}
	for _, m := range []string{"GET", "POST", "PUT", "PATCH", "DELETE", "OPTIONS", "HEAD", "Any", "Handle"} {
		regExtern(grp+m, "RouterGroup."+m+": registers a route; obligation: the group is guarded by the authorisation middleware at this point",
			func(ex *Exec, fr *Frame, st *State, pc *Term, fn *ssa.Function, args []Value, pos token.Pos) (Value, *Term) {
				id := lockID(args[0])
				g := st.comp(compGuarded, heldSort)
				ex.oblige(fr, "route", "route registered on a group without the authorisation middleware: "+ex.srcText(pos), pos, pc, Select(g, id), ex.safetyProps)
				return freshResults(ex, st, pc, fn, "gin.route"), pc
			})
	}
	regExtern("github.com/free5gc/util/logger.NewGinWithLogrus", "NewGinWithLogrus: a new engine without authorisation middleware",
		func(ex *Exec, fr *Frame, st *State, pc *Term, fn *ssa.Function, args []Value, pos token.Pos) (Value, *Term) {
			p := ex.alloc(st, pc)
			// no group inside a new engine is guarded
			g := st.comp(compGuarded, heldSort)
			k := Bound("k", BV64)
			ng := Fresh("gin.guarded", heldSort)
			ex.assume(pc, Forall([]*Term{k}, Eq(Select(ng, k), And(Select(g, k), Or(ULt(k, Mul(p, C64(4096))), ULe(Mul(Add(p, C64(1)), C64(4096)), k)))), []*Term{Select(ng, k)}))
			ex.noteWrite(compGuarded)
			st.setComp(compGuarded, ng)
			return VPtr{T: p}, pc
		})
	externWrites["github.com/free5gc/util/logger.NewGinWithLogrus"] = []string{"next", compGuarded}
}

// usesAuthMiddleware: the Use call at this site passes a function literal that calls
// (*RouterAuthorizationCheck).Check
func usesAuthMiddleware(site ssa.Instruction) bool {
	call, ok := site.(ssa.CallInstruction)
	if !ok {
		return false
	}
	cc := call.Common()
	if len(cc.Args) < 2 {
		return false
	}
	sl, ok := cc.Args[len(cc.Args)-1].(*ssa.Slice)
	if !ok {
		return false
	}
	arr, ok := sl.X.(*ssa.Alloc)
	if !ok || arr.Referrers() == nil {
		return false
	}
	found := false
	for _, r := range *arr.Referrers() {
		ia, ok := r.(*ssa.IndexAddr)
		if !ok || ia.Referrers() == nil {
			continue
		}
		for _, u := range *ia.Referrers() {
			s, ok := u.(*ssa.Store)
			if !ok {
				continue
			}
			var f *ssa.Function
			switch v := s.Val.(type) {
			case *ssa.MakeClosure:
				f, _ = v.Fn.(*ssa.Function)
			case *ssa.Function:
				f = v
			case *ssa.ChangeType:
				switch w := v.X.(type) {
				case *ssa.MakeClosure:
					f, _ = w.Fn.(*ssa.Function)
				case *ssa.Function:
					f = w
				}
			}
			if f == nil {
				continue
			}
			for _, b := range f.Blocks {
				for _, in := range b.Instrs {
					if ci, ok := in.(ssa.CallInstruction); ok {
						if cal := ci.Common().StaticCallee(); cal != nil && cal.Name() == "Check" && cal.Signature.Recv() != nil &&
							types.TypeString(cal.Signature.Recv().Type(), nil) == "*github.com/free5gc/chf/internal/util.RouterAuthorizationCheck" {
							// the context handed to Check is the handler's own gin context
							if len(f.Params) > 0 && len(ci.Common().Args) > 1 && isParamValue(ci.Common().Args[1], f.Params[0]) {
								found = true
							}
						}
					}
				}
			}
		}
	}
	return found
}

func init() {
	regExtern("github.com/free5gc/chf/internal/sbi.ServerChf.Config", "ServerChf.Config(): the configuration the application was started with: non-nil and satisfying factory.SpecValidated (Config.Validate succeeded before the application was built)",
		func(ex *Exec, fr *Frame, st *State, pc *Term, fn *ssa.Function, args []Value, pos token.Pos) (Value, *Term) {
			recv := args[0].(VIface)
			p := App("app.config", BV64, recv.Tag, recv.Pay) // one configuration per application object
			ex.assume(pc, And(Not(Eq(p, C64(0))), ULt(p, st.next)))
			// the application only starts with a configuration that passed Config.Validate: factory.SpecValidated
			// (the presence predicate of the valid tags plus the https rule) holds for it
			done := false
			for _, pkg := range ex.V.prog.AllPackages() {
				if pkg.Pkg.Path() == "github.com/free5gc/chf/pkg/factory" {
					if sf := pkg.Func("SpecValidated"); sf != nil {
						spec := &Frame{fn: fr.fn, vals: fr.vals, depth: fr.depth, spec: true}
						ex.assume(pc, ex.inline(spec, st, pc, sf, []Value{VPtr{T: p}}, nil, true, pos).(VBool).T)
						done = true
					}
				}
			}
			if !done {
				panic(unsupported("factory.SpecValidated not found (contracts of package factory not loaded)"))
			}
			return VPtr{T: p}, pc
		})
	regExtern("github.com/free5gc/chf/internal/sbi.ServerChf.Context", "ServerChf.Context(): the CHF context, non-nil",
		func(ex *Exec, fr *Frame, st *State, pc *Term, fn *ssa.Function, args []Value, pos token.Pos) (Value, *Term) {
			p := Fresh("app.context", BV64)
			ex.assume(pc, And(Not(Eq(p, C64(0))), ULt(p, st.next)))
			return VPtr{T: p}, pc
		})
	regExtern("github.com/free5gc/chf/internal/context.NFContext.AuthorizationCheck", "NFContext.AuthorizationCheck(token, service): any error result; ghostAuthRejected records whether it was non-nil",
		func(ex *Exec, fr *Frame, st *State, pc *Term, fn *ssa.Function, args []Value, pos token.Pos) (Value, *Term) {
			rej := Fresh("auth.rejected", BoolSort)
			if g, ok := ex.ghostVar(fr, "ghostAuthRejected"); ok {
				ex.ghostStore(st, g, VBool{rej})
			}
			tag := Const(typeTag(types.Universe.Lookup("error").Type())+1003, 64)
			pay := Fresh("auth.err", BV64)
			return VIface{Ite(rej, tag, C64(0)), Ite(rej, pay, C64(0))}, pc
		})
	regExtern("(*github.com/gin-gonic/gin.Context).Abort", "gin.Context.Abort: no later handler of the chain runs (ghostAborted)",
		func(ex *Exec, fr *Frame, st *State, pc *Term, fn *ssa.Function, args []Value, pos token.Pos) (Value, *Term) {
			if g, ok := ex.ghostVar(fr, "ghostAborted"); ok {
				ex.ghostStore(st, g, VBool{True})
			}
			return VTuple{}, pc
		})
	regPrefix("(net/http.Header).", "http.Header accessors: opaque", pureOpaque)
}

// isParamValue: v is the parameter itself or a load of the cell the parameter is spilled to (naive SSA form)
func isParamValue(v ssa.Value, p *ssa.Parameter) bool {
	if v == ssa.Value(p) {
		return true
	}
	ld, ok := v.(*ssa.UnOp)
	if !ok || ld.Op != token.MUL {
		return false
	}
	cell, ok := ld.X.(*ssa.Alloc)
	if !ok || cell.Referrers() == nil {
		return false
	}
	stores := 0
	fromParam := false
	for _, r := range *cell.Referrers() {
		if st, ok := r.(*ssa.Store); ok && st.Addr == ssa.Value(cell) {
			stores++
			if st.Val == ssa.Value(p) {
				fromParam = true
			}
		}
	}
	return stores == 1 && fromParam
}

func init() {
	regExtern("github.com/free5gc/openapi/oauth.VerifyOAuth", "oauth.VerifyOAuth(token, service, cert): any error result (assumed to reject a missing, malformed or wrongly signed token); ghostTokenVerified := true, ghostTokenRejected := (result != nil)",
		func(ex *Exec, fr *Frame, st *State, pc *Term, fn *ssa.Function, args []Value, pos token.Pos) (Value, *Term) {
			rej := Fresh("oauth.rejected", BoolSort)
			if g, ok := ex.ghostVar(fr, "ghostTokenVerified"); ok {
				ex.ghostStore(st, g, VBool{True})
			}
			if g, ok := ex.ghostVar(fr, "ghostTokenRejected"); ok {
				ex.ghostStore(st, g, VBool{rej})
			}
			tag := Const(typeTag(types.Universe.Lookup("error").Type())+1004, 64)
			pay := Fresh("oauth.err", BV64)
			return VIface{Ite(rej, tag, C64(0)), Ite(rej, pay, C64(0))}, pc
		})
}

func init() {
	regExtern("github.com/free5gc/openapi.Deserialize", "openapi.Deserialize(&v, body, contentType): *v becomes an arbitrary well-typed value (any member may be absent: pointers may be nil); any error result",
		func(ex *Exec, fr *Frame, st *State, pc *Term, fn *ssa.Function, args []Value, pos token.Pos) (Value, *Term) {
			d := args[0].(VIface)
			if !d.Tag.IsConst() {
				panic(unsupported("Deserialize into a statically unknown type"))
			}
			pt, ok := under(tagTypes[d.Tag.Val]).(*types.Pointer)
			if !ok {
				panic(unsupported("Deserialize into a non-pointer"))
			}
			v := freshValue(pt.Elem(), "deserialize")
			ex.assumeWF(st, pc, v)
			ex.storeObj(st, pt.Elem(), d.Pay, v)
			return VIface{Fresh("deserialize.err", BV64), Fresh("deserialize.errp", BV64)}, pc
		})
}
