package main

// Assumed contracts: gin.Context as the HTTP response sink. Ghost state (package variables declared in the
// contract file of the package under verification):
//   ghostHttpStatus int    the status code of the last response written
//   ghostHttpBody   bool   the last response carried a body
//   ghostHttpWrites int    number of responses written

import (
	"go/token"
	"go/types"

	"golang.org/x/tools/go/ssa"
)

func init() {
	respond := func(withBody bool) externFn {
		return func(ex *Exec, fr *Frame, st *State, pc *Term, fn *ssa.Function, args []Value, pos token.Pos) (Value, *Term) {
			ex.safety(fr, "nil", pos, pc, Not(Eq(args[0].(VPtr).T, C64(0))))
			code := args[1].(VBV).T
			if g, ok := ex.ghostVar(fr, "ghostHttpStatus"); ok {
				ex.ghostStore(st, g, VBV{code})
			}
			if g, ok := ex.ghostVar(fr, "ghostHttpBody"); ok {
				ex.ghostStore(st, g, VBool{BoolC(withBody)})
			}
			if g, ok := ex.ghostVar(fr, "ghostHttpWrites"); ok {
				cur := ex.ghostLoad(st, pc, g).(VBV).T
				ex.ghostStore(st, g, VBV{Add(cur, C64(1))})
			}
			return VTuple{}, pc
		}
	}
	pre := "(*github.com/gin-gonic/gin.Context)."
	regExtern(pre+"JSON", "gin.Context.JSON(code, obj): writes a response with that status and a body (ghostHttpStatus, ghostHttpBody)", respond(true))
	regExtern(pre+"String", "gin.Context.String(code, ...): writes a response with that status and a body", respond(true))
	regExtern(pre+"Data", "gin.Context.Data(code, ...): writes a response with that status and a body", respond(true))
	regExtern(pre+"Status", "gin.Context.Status(code): sets the status of a response without body", respond(false))
	regExtern(pre+"Header", "gin.Context.Header: no effect on modelled state", pureOpaque)
	regExtern(pre+"Param", "gin.Context.Param: an arbitrary string", pureOpaque)
	regExtern(pre+"GetRawData", "gin.Context.GetRawData: arbitrary bytes or an error", pureOpaque)
	_ = types.Typ
}

func init() {
	regExtern("github.com/free5gc/chf/internal/sbi.ServerChf.Processor", "ServerChf.Processor(): the application's processor, non-nil (set once at start-up)",
		func(ex *Exec, fr *Frame, st *State, pc *Term, fn *ssa.Function, args []Value, pos token.Pos) (Value, *Term) {
			p := Fresh("app.processor", BV64)
			ex.assume(pc, And(Not(Eq(p, C64(0))), ULt(p, st.next)))
			return VPtr{T: p}, pc
		})
}
