package main

// Recursive specification functions (structural recursion on an integer argument).
// A call becomes an application of an uninterpreted function that is specific to the
// version of the heap components the function reads; its defining equation
//     forall args. f(args) == body(args)      (recursive calls inside body are f-applications)
// is added once per version as a global axiom. Termination is checked syntactically: the
// recursive call must pass n-1 for some integer parameter n, under a non-trivial guard.

import (
	"crypto/sha1"
	"fmt"
	"go/token"
	"go/types"
	"sort"

	"golang.org/x/tools/go/ssa"
)

func isSelfRecursive(fn *ssa.Function) bool {
	for _, b := range fn.Blocks {
		for _, in := range b.Instrs {
			if c, ok := in.(ssa.CallInstruction); ok {
				if c.Common().StaticCallee() == fn {
					return true
				}
			}
		}
	}
	return false
}

// blockReads: heap components read by the given blocks (callees included)
func (v *Verifier) blockReads(blocks []*ssa.BasicBlock) map[string]bool {
	rs := map[string]bool{}
	v.readsOf(blocks, rs, map[*ssa.Function]bool{})
	return rs
}

// readSet: heap components a (specification) function may read, transitively
func (v *Verifier) readSet(fn *ssa.Function, seen map[*ssa.Function]bool) map[string]bool {
	if seen[fn] {
		return map[string]bool{}
	}
	seen[fn] = true
	rs := map[string]bool{}
	v.readsOf(fn.Blocks, rs, seen)
	for _, a := range fn.AnonFuncs {
		for c := range v.readSet(a, seen) {
			rs[c] = true
		}
	}
	return rs
}

func (v *Verifier) readsOf(blocks []*ssa.BasicBlock, rs map[string]bool, seen map[*ssa.Function]bool) {
	cells := map[*ssa.Alloc]bool{}
	for _, b := range blocks {
		for _, in := range b.Instrs {
			switch x := in.(type) {
			case *ssa.UnOp:
				if x.Op == token.MUL {
					regFresh = true
					v.addrWrites(x.X, rs, cells)
					regFresh = false
				}
			case *ssa.Lookup:
				if mt, ok := under(x.X.Type()).(*types.Map); ok {
					regFresh = true
					regM(mt, rs)
					regFresh = false
				}
			case *ssa.TypeAssert:
				if _, isI := under(x.AssertedType).(*types.Interface); !isI && !directPayload(x.AssertedType) {
					for i, srt := range leafSorts(x.AssertedType) {
						rs[bCompName(x.AssertedType, i)] = true
						compSorts[bCompName(x.AssertedType, i)] = ArrSort(BV64, srt)
					}
				}
			case *ssa.Convert:
				if sl, ok := under(x.X.Type()).(*types.Slice); ok {
					regFresh = true
					regE(sl.Elem(), rs)
					regFresh = false
				}
			case ssa.CallInstruction:
				if callee := x.Common().StaticCallee(); callee != nil && len(callee.Blocks) > 0 {
					if c := v.contractFor(callee); (c != nil && c.Trusted) || !v.inRepo(callee) {
						continue // executed by contract or as an extern: its reads are not modelled state
					}
					for c := range v.readSet(callee, seen) {
						rs[c] = true
					}
				}
				if mc, ok := x.Common().Value.(*ssa.MakeClosure); ok {
					for c := range v.readSet(mc.Fn.(*ssa.Function), seen) {
						rs[c] = true
					}
				}
			}
		}
	}
}

func (ex *Exec) recCall(fr *Frame, st *State, pc *Term, fn *ssa.Function, args []Value) Value {
	if name, ok := ex.recActive[fn]; ok {
		ex.checkDecreasing(fn, args, pc)
		return ex.recApp(fn, name, args)
	}
	rs := ex.V.readSet(fn, map[*ssa.Function]bool{})
	var names []string
	for n := range rs {
		if n != "next" && n[0] != '!' {
			names = append(names, n)
		}
	}
	sort.Strings(names)
	h := sha1.New()
	for _, n := range names {
		srt := compSorts[n]
		if srt == nil {
			continue
		}
		fmt.Fprintf(h, "%s=%d;", n, st.comp(n, srt).id)
	}
	name := fmt.Sprintf("rec$%s$%x", relName(fn), h.Sum(nil)[:4])
	if !ex.recDone[name] {
		ex.recDone[name] = true
		var bvs []*Term
		var bargs []Value
		for _, p := range fn.Params {
			ss := leafSorts(p.Type())
			ls := make([]*Term, len(ss))
			for i, s := range ss {
				ls[i] = Bound(p.Name(), s)
				bvs = append(bvs, ls[i])
			}
			bargs = append(bargs, fromLeaves(p.Type(), ls))
		}
		if ex.recActive == nil {
			ex.recActive = map[*ssa.Function]string{}
		}
		ex.recActive[fn] = name
		ex.recParams = bargs
		sf := &Frame{fn: fr.fn, vals: fr.vals, depth: fr.depth, spec: true}
		body := ex.inline(sf, st, True, fn, bargs, nil, true, token.NoPos)
		delete(ex.recActive, fn)
		app := ex.recApp(fn, name, bargs)
		bl, al := toLeaves(body), toLeaves(app)
		var eqs []*Term
		for i := range bl {
			eqs = append(eqs, Eq(al[i], bl[i]))
		}
		ex.globalAxioms = append(ex.globalAxioms, Forall(bvs, And(eqs...), []*Term{al[0]}))
	}
	return ex.recApp(fn, name, args)
}

func (ex *Exec) recApp(fn *ssa.Function, name string, args []Value) Value {
	var ts []*Term
	for _, a := range args {
		ts = append(ts, toLeaves(a)...)
	}
	res := fn.Signature.Results()
	ss := leafSorts(res)
	ls := make([]*Term, len(ss))
	for i, s := range ss {
		ls[i] = App(fmt.Sprintf("%s$%d", name, i), s, ts...)
	}
	if res.Len() == 1 {
		return fromLeaves(res.At(0).Type(), ls)
	}
	return fromLeaves(res, ls)
}

// checkDecreasing: some integer argument of the recursive call is (parameter - 1), and the call is guarded
func (ex *Exec) checkDecreasing(fn *ssa.Function, args []Value, pc *Term) {
	ok := false
	for i, a := range args {
		bv, isBV := a.(VBV)
		if !isBV || i >= len(ex.recParams) {
			continue
		}
		pv, isP := ex.recParams[i].(VBV)
		if !isP {
			continue
		}
		if bv.T == Sub(pv.T, Const(1, pv.T.Sort.W)) {
			ok = true
		}
	}
	if !ok || pc.IsTrue() {
		panic(unsupported("recursive specification function " + fn.Name() + ": the recursive call must pass n-1 for an integer parameter n under a guard"))
	}
}
