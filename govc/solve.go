package main

import (
	"bytes"
	"context"
	"fmt"
	"os"
	"os/exec"
	"path/filepath"
	"sort"
	"strings"
	"sync"
	"time"
)

type solverSpec struct {
	name string
	args func(timeoutS int, seed int) []string
	bin  string
}

var solvers = []solverSpec{
	{"z3-new-5.1.0", func(t, seed int) []string {
		return []string{"-smt2", fmt.Sprintf("-T:%d", t), fmt.Sprintf("smt.random_seed=%d", seed), fmt.Sprintf("sat.random_seed=%d", seed)}
	}, "z3-new"},
	{"cvc5-1.0", func(t, seed int) []string {
		return []string{fmt.Sprintf("--tlimit=%d", t*1000), "--produce-models", fmt.Sprintf("--seed=%d", seed), "--lang=smt2", "--strings-exp"}
	}, "cvc5"},
	{"z3-4.8.12", func(t, seed int) []string {
		return []string{"-smt2", fmt.Sprintf("-T:%d", t), fmt.Sprintf("smt.random_seed=%d", seed)}
	}, "z3"},
}

type solveResult struct {
	status    string // unsat | sat | unknown
	solver    string
	ms        int64
	output    string
	all       map[string]string
	confirmed int // confirmAll: number of solvers with the same definitive answer
}

var extraModelTerms map[string]*Term

var vcMu sync.Mutex

// curAxioms: definitional axioms of recursive specification functions for the function being discharged
var curAxioms []*Term

// A proof of the quantifier-free relaxation (all quantified hypotheses removed) is a proof of the
// obligation; a model of it is only a candidate counterexample.
func isQuantified(t *Term) bool {
	switch t.Op {
	case "forall", "exists":
		return true
	case "=>":
		return isQuantified(t.Args[1])
	case "and":
		for _, a := range t.Args {
			if !isQuantified(a) {
				return false
			}
		}
		return len(t.Args) > 0
	}
	return false
}

func buildVC(o *Obligation, assumptions []*Term, modelVars []*Term) string {
	return buildVC2(o, assumptions, modelVars, false)
}

// absMulVC: set (under vcMu) while the multiplication-abstracted variant of a VC is built
var absMulVC bool

func buildVCAbsMul(o *Obligation, assumptions []*Term, modelVars []*Term) string {
	vcMu.Lock()
	absMulVC = true
	vcMu.Unlock()
	defer func() { vcMu.Lock(); absMulVC = false; vcMu.Unlock() }()
	return buildVC2(o, assumptions, modelVars, false)
}

func buildVC2(o *Obligation, assumptions []*Term, modelVars []*Term, dropQuantified bool) string {
	vcMu.Lock()
	defer vcMu.Unlock()
	var asserts []*Term
	asserts = append(asserts, curAxioms...)
	hyps := assumptions[:o.NAssume]
	goal := o.Goal
	if !o.Vacuity {
		// skolemise the universally quantified parts of the goal ourselves and add, for every
		// quantified hypothesis over binders of the same names, its instance at those constants
		// (instances of hypotheses are consequences: sound; it spares the solvers the matching)
		var sets []map[string]*Term
		goal = skolemGoal(goal, &sets)
		if len(sets) > 0 && len(sets) <= 4 {
			hs := make([]*Term, len(hyps))
			for i, h := range hyps {
				hs[i] = addInstances(h, sets)
			}
			hyps = hs
		}
	}
	if dropQuantified {
		var qf []*Term
		for _, h := range hyps {
			if h.Op == "and" {
				var keep []*Term
				for _, a := range h.Args {
					if !isQuantified(a) {
						keep = append(keep, a)
					}
				}
				h = And(keep...)
			}
			if !isQuantified(h) {
				qf = append(qf, h)
			}
		}
		hyps = qf
		asserts = nil // the definitional axioms of recursive specification functions are quantified too
	}
	asserts = append(asserts, hyps...)
	asserts = append(asserts, o.PC)
	if !o.Vacuity {
		asserts = append(asserts, Not(goal))
	}
	if absMulVC {
		asserts = abstractMul(asserts)
	}
	order, _ := collect(asserts)
	sax := stringAxioms(order)
	asserts = append(sax, asserts...)
	var named map[string]*Term
	if !o.Vacuity {
		named = extraModelTerms
	}
	var sb strings.Builder
	sb.WriteString("(set-option :produce-models true)\n(set-logic ALL)\n")
	relaxRowCopy = dropQuantified
	sb.WriteString(SMTScript(asserts, nil, named))
	relaxRowCopy = false
	sb.WriteString("(check-sat)\n")
	// model values for the scalar inputs that occur
	order2, _ := collect(asserts)
	present := map[int]bool{}
	for _, t := range order2 {
		present[t.id] = true
	}
	var mv []string
	for _, v := range modelVars {
		if present[v.id] && (v.Sort.IsBV() || v.Sort == BoolSort) {
			mv = append(mv, "|"+v.Name+"|")
		}
	}
	var names []string
	for n, t := range named {
		if !t.bound && (t.Sort.IsBV() || t.Sort == BoolSort) {
			names = append(names, n)
		}
	}
	sort.Strings(names)
	for _, n := range names {
		mv = append(mv, "|"+n+"|")
	}
	if len(mv) > 0 {
		sb.WriteString("(get-value (" + strings.Join(mv, " ") + "))\n")
	}
	return sb.String()
}

func runSolver(ctx context.Context, s solverSpec, file string, timeoutS, seed int) (string, string) {
	args := append(s.args(timeoutS, seed), file)
	cctx, cancel := context.WithTimeout(ctx, time.Duration(timeoutS+2)*time.Second)
	defer cancel()
	cmd := exec.CommandContext(cctx, s.bin, args...)
	var out bytes.Buffer
	cmd.Stdout = &out
	cmd.Stderr = &out
	_ = cmd.Run()
	text := out.String()
	first := strings.TrimSpace(strings.SplitN(text, "\n", 2)[0])
	switch first {
	case "sat", "unsat", "unknown":
		return first, text
	}
	if strings.Contains(text, "timeout") || cctx.Err() != nil {
		return "timeout", text
	}
	return "error", text
}

// confirmAll (thorough tier): do not stop at the first definitive answer; every solver runs to its own
// answer or time limit, the number of agreeing definitive answers is recorded, and two definitive answers
// that contradict each other make the obligation undecided ("solver disagreement").
var confirmAll bool

func solveConfirm(file string, timeoutS, seed int) solveResult {
	ctx, cancel := context.WithCancel(context.Background())
	defer cancel()
	type r struct {
		name, status, out string
		ms                int64
	}
	ch := make(chan r, len(solvers))
	start := time.Now()
	for _, s := range solvers {
		go func(s solverSpec) {
			st, out := runSolver(ctx, s, file, timeoutS, seed)
			ch <- r{s.name, st, out, time.Since(start).Milliseconds()}
		}(s)
	}
	res := solveResult{status: "unknown", all: map[string]string{}}
	nSat, nUnsat := 0, 0
	var grace <-chan time.Time
	got := 0
loop:
	for got < len(solvers) {
		select {
		case x := <-ch:
			got++
			res.all[x.name] = x.status
			switch x.status {
			case "sat":
				nSat++
			case "unsat":
				nUnsat++
			}
			if (x.status == "sat" || x.status == "unsat") && res.solver == "" {
				res.status, res.solver, res.ms, res.output = x.status, x.name, x.ms, x.out
				// the other solvers get a grace period of three times the first answer's time (at least 5 s)
				g := 3 * time.Since(start)
				if g < 5*time.Second {
					g = 5 * time.Second
				}
				grace = time.After(g)
			}
		case <-grace:
			cancel()
			break loop
		}
	}
	res.confirmed = nSat + nUnsat
	if nSat > 0 && nUnsat > 0 {
		res.status = "unknown"
		res.output = fmt.Sprintf("solver disagreement: %v", res.all)
		res.solver = ""
	}
	if res.ms == 0 {
		res.ms = time.Since(start).Milliseconds()
	}
	return res
}

// solve races the installed solvers on one VC file.
func solve(file string, timeoutS, seed int) solveResult {
	if confirmAll {
		return solveConfirm(file, timeoutS, seed)
	}
	ctx, cancel := context.WithCancel(context.Background())
	defer cancel()
	type r struct {
		name, status, out string
		ms                int64
	}
	ch := make(chan r, len(solvers))
	start := time.Now()
	order := append([]solverSpec{}, solvers...)
	if seed%2 == 1 {
		order[0], order[1] = order[1], order[0]
	}
	for _, s := range order {
		go func(s solverSpec) {
			st, out := runSolver(ctx, s, file, timeoutS, seed)
			ch <- r{s.name, st, out, time.Since(start).Milliseconds()}
		}(s)
	}
	res := solveResult{status: "unknown", all: map[string]string{}}
	for i := 0; i < len(solvers); i++ {
		x := <-ch
		res.all[x.name] = x.status
		if x.status == "unsat" || x.status == "sat" {
			res.status, res.solver, res.ms, res.output = x.status, x.name, x.ms, x.out
			cancel()
			// drain
			go func(n int) {
				for j := 0; j < n; j++ {
					<-ch
				}
			}(len(solvers) - i - 1)
			return res
		}
		if res.output == "" || x.status == "error" {
			res.output += x.name + ": " + truncate(x.out, 300) + "\n"
		}
	}
	res.ms = time.Since(start).Milliseconds()
	return res
}

func truncate(s string, n int) string {
	if len(s) > n {
		return s[:n] + "..."
	}
	return s
}

func parseModel(out string) map[string]string {
	m := map[string]string{}
	i := strings.Index(out, "\n")
	if i < 0 {
		return m
	}
	body := out[i+1:]
	// pairs of the form (|name| value) or (name value)
	toks := tokenize(body)
	for k := 0; k+3 < len(toks); k++ {
		if toks[k] == "(" && toks[k+1] != "(" && toks[k+2] != "(" && toks[k+2] != ")" && toks[k+3] == ")" {
			name := strings.Trim(toks[k+1], "|")
			m[name] = toks[k+2]
		}
	}
	return m
}

func tokenize(s string) []string {
	var out []string
	i := 0
	for i < len(s) {
		c := s[i]
		switch {
		case c == '(' || c == ')':
			out = append(out, string(c))
			i++
		case c == ' ' || c == '\n' || c == '\t' || c == '\r':
			i++
		case c == '|':
			j := strings.IndexByte(s[i+1:], '|')
			if j < 0 {
				return out
			}
			out = append(out, s[i:i+j+2])
			i += j + 2
		default:
			j := i
			for j < len(s) && !strings.ContainsRune("() \n\t\r", rune(s[j])) {
				j++
			}
			out = append(out, s[i:j])
			i = j
		}
	}
	return out
}

const maxVCBytes = 4 << 20

// dischargeAll solves all pending obligations of a function result in parallel.
func dischargeAll(res *FuncResult, dir string, timeoutS, seed, par int, modelVars []*Term) {
	curAxioms = res.Axioms
	var wg sync.WaitGroup
	sem := make(chan struct{}, par)
	for idx, o := range res.Obls {
		if o.Status != "" {
			continue
		}
		vc := buildVC(o, res.Assumptions, modelVars)
		if len(vc) > maxVCBytes {
			o.Status = "unknown"
			o.Detail = fmt.Sprintf("VC too large (%d bytes)", len(vc))
			continue
		}
		file := filepath.Join(dir, fmt.Sprintf("%s_%d.smt2", mangle(relName(res.Fn)), idx))
		if err := os.WriteFile(file, []byte(vc), 0o644); err != nil {
			o.Status = "error"
			o.Detail = err.Error()
			continue
		}
		wg.Add(1)
		sem <- struct{}{}
		go func(o *Obligation, file string) {
			defer wg.Done()
			defer func() { <-sem }()
			tmo := timeoutS
			if o.Vacuity && tmo > 3 {
				tmo = 3
			}
			r := solve(file, tmo, seed)
			o.Solver, o.Ms = r.solver, r.ms
			o.Confirmed = r.confirmed
			o.Detail = file
			if o.Vacuity {
				if r.status == "unsat" && o.PrePC != nil {
					// contradictory after the call: a defect of the contracts only if the call was reachable
					sub := *o
					sub.PC, sub.NAssume, sub.PrePC = o.PrePC, o.PreNAssume, nil
					f2 := strings.TrimSuffix(file, ".smt2") + "_pre.smt2"
					if err := os.WriteFile(f2, []byte(buildVC(&sub, res.Assumptions, modelVars)), 0o644); err == nil {
						r2 := solve(f2, tmo, seed)
						o.Ms += r2.ms
						switch r2.status {
						case "sat":
							o.Status = "failed"
							o.Detail = "vacuous: the assumed postcondition of the callee contradicts the state at a reachable call (" + r.solver + ", " + r2.solver + ")"
						case "unsat":
							o.Status = "proved"
							o.Solver = r2.solver
							o.Note = "call site unreachable under this contract"
						default:
							o.Status = "proved"
							o.Solver = "none(unknown: reachability of the call site not decided within the time limit)"
						}
						return
					}
				}
				if r.status == "unsat" {
					o.Status = "failed"
					o.Detail = "vacuous: assumptions are contradictory (" + r.solver + ")"
				} else {
					o.Status = "proved"
					if r.solver == "" {
						o.Solver = "none(unknown: not contradictory within the time limit)"
					}
				}
				return
			}
			switch r.status {
			case "unsat":
				o.Status = "proved"
			case "sat":
				o.Status = "failed"
				o.Model = parseModel(r.output)
			default:
				o.Status = "unknown"
				o.Note = fmt.Sprintf("%v %s", r.all, truncate(r.output, 400))
				// a conjunction that is not decided as a whole is decided conjunct by conjunct
				if o.Goal.Op == "and" && len(o.Goal.Args) > 1 && len(o.Goal.Args) <= 128 {
					allProved := true
					for ci, cj := range o.Goal.Args {
						sub := *o
						sub.Goal = cj
						vc2 := buildVC(&sub, res.Assumptions, modelVars)
						f2 := strings.TrimSuffix(file, ".smt2") + fmt.Sprintf("_c%d.smt2", ci)
						os.WriteFile(f2, []byte(vc2), 0o644)
						r2 := solve(f2, tmo, seed)
						o.Ms += r2.ms
						if r2.status == "sat" {
							o.Status = "failed"
							o.Solver = r2.solver
							o.Model = parseModel(r2.output)
							o.Detail = f2
							allProved = false
							break
						}
						if r2.status != "unsat" {
							allProved = false
							o.Note = fmt.Sprintf("conjunct %d: %v", ci, r2.all)
							break
						}
						o.Solver = r2.solver + "(per conjunct)"
					}
					if allProved {
						o.Status = "proved"
					}
				}
				if o.Status == "unknown" && !noRelax {
					// products of two variables as an uninterpreted function (valid under the abstraction => valid)
					vc4 := buildVCAbsMul(o, res.Assumptions, modelVars)
					f4 := strings.TrimSuffix(file, ".smt2") + "_absmul.smt2"
					if len(vc4) < maxVCBytes && strings.Contains(vc4, "absmul") {
						os.WriteFile(f4, []byte(vc4), 0o644)
						r4 := solve(f4, tmo, seed)
						o.Ms += r4.ms
						if r4.status == "unsat" {
							o.Status, o.Solver = "proved", r4.solver+"(products abstracted)"
						}
					}
				}
				if o.Status == "unknown" && !noRelax {
					vc3 := buildVC2(o, res.Assumptions, modelVars, true)
					f3 := strings.TrimSuffix(file, ".smt2") + "_qf.smt2"
					if len(vc3) < maxVCBytes {
						os.WriteFile(f3, []byte(vc3), 0o644)
						r3 := solve(f3, tmo, seed)
						o.Ms += r3.ms
						switch r3.status {
						case "unsat":
							o.Status, o.Solver = "proved", r3.solver+"(quantifier-free relaxation)"
						case "sat":
							o.Model = parseModel(r3.output)
							o.Note += " | candidate model from the quantifier-free relaxation (quantified hypotheses dropped; may be spurious)"
						}
					}
				}
			}
		}(o, file)
	}
	wg.Wait()
	// second chance for undecided obligations: fewer at a time, three times the time limit
	if !noRetry {
		var wg2 sync.WaitGroup
		sem2 := make(chan struct{}, 3)
		n := 0
		for _, o := range res.Obls {
			if o.Status != "unknown" || o.Vacuity || !strings.HasSuffix(o.Detail, ".smt2") {
				continue
			}
			n++
			if n > 6 {
				break // many undecided obligations: something systematic, do not burn time
			}
			wg2.Add(1)
			sem2 <- struct{}{}
			go func(o *Obligation) {
				defer wg2.Done()
				defer func() { <-sem2 }()
				r := solve(o.Detail, 5*timeoutS, seed+1)
				o.Ms += r.ms
				switch r.status {
				case "unsat":
					o.Status, o.Solver = "proved", r.solver+"(retry)"
				case "sat":
					o.Status, o.Solver = "failed", r.solver+"(retry)"
					o.Model = parseModel(r.output)
				}
			}(o)
		}
		wg2.Wait()
	}
}

var noRetry bool
var noRelax bool

func boundBase(b *Term) string {
	if i := strings.Index(b.Name, "?"); i >= 0 {
		return b.Name[:i]
	}
	return b.Name
}

// skolemGoal replaces universally quantified variables in positive positions of the goal by fresh constants.
func skolemGoal(g *Term, sets *[]map[string]*Term) *Term {
	switch g.Op {
	case "forall":
		m := map[*Term]*Term{}
		set := map[string]*Term{}
		for _, b := range g.Bvars {
			c := Fresh("sk$"+boundBase(b), b.Sort)
			m[b] = c
			set[boundBase(b)+":"+b.Sort.String()] = c
		}
		*sets = append(*sets, set)
		return skolemGoal(Subst(g.Args[0], m), sets)
	case "and":
		if len(g.Args) > 4 {
			return g
		}
		out := make([]*Term, len(g.Args))
		for i, a := range g.Args {
			out[i] = skolemGoal(a, sets)
		}
		return And(out...)
	case "=>":
		return Implies(g.Args[0], skolemGoal(g.Args[1], sets))
	}
	return g
}

// addInstances: every quantified subformula (reached through Boolean structure) whose binders all have a
// skolem constant of the same name and sort is conjoined with its instance (an equivalent formula).
func addInstances(t *Term, sets []map[string]*Term) *Term {
	switch t.Op {
	case "forall":
		out := []*Term{t}
		for _, set := range sets {
			m := map[*Term]*Term{}
			ok := true
			for _, b := range t.Bvars {
				c, has := set[boundBase(b)+":"+b.Sort.String()]
				if !has {
					ok = false
					break
				}
				m[b] = c
			}
			if ok {
				out = append(out, Subst(t.Args[0], m))
			}
		}
		return And(out...)
	case "and", "or", "=>", "not":
		args := make([]*Term, len(t.Args))
		ch := false
		for i, a := range t.Args {
			args[i] = addInstances(a, sets)
			if args[i] != a {
				ch = true
			}
		}
		if !ch {
			return t
		}
		return rebuild(t, args)
	}
	return t
}
