package main

import (
	"flag"
	"fmt"
	"os"
	"sort"
	"strings"
	"time"
)

func usage() {
	fmt.Fprintln(os.Stderr, "usage: govc func|check|list ...")
	os.Exit(2)
}

func main() {
	if len(os.Args) < 2 {
		usage()
	}
	switch os.Args[1] {
	case "func":
		cmdFunc(os.Args[2:])
	case "check":
		cmdCheck(os.Args[2:])
	case "gen":
		cmdGen(os.Args[2:])
	case "replay":
		if len(os.Args) < 3 {
			usage()
		}
		cmdReplay(os.Args[2])
	default:
		usage()
	}
}

func inputVars(res *FuncResult) []*Term {
	var out []*Term
	for name, t := range varTab {
		if strings.HasPrefix(name, "in$") || strings.HasPrefix(name, "fv$") || strings.HasPrefix(name, "init$") {
			out = append(out, t)
		}
	}
	sort.Slice(out, func(i, j int) bool { return out[i].Name < out[j].Name })
	return out
}

// govc func -repo /repo -pkg ./cdr/asn [-fn name] : verify contracts of one package (development aid)
func cmdFunc(args []string) {
	fs := flag.NewFlagSet("func", flag.ExitOnError)
	repo := fs.String("repo", "/repo", "")
	pkg := fs.String("pkg", "", "package pattern(s), comma separated")
	fnName := fs.String("fn", "", "function (package-relative SSA name); empty = all")
	timeout := fs.Int("t", 10, "per-obligation timeout (s)")
	keep := fs.String("keep", "", "directory to keep VC files in")
	verbose := fs.Bool("v", false, "")
	only := fs.String("only", "", "only discharge obligations whose name contains this")
	retry := fs.Bool("retry", false, "retry undecided obligations with a longer time limit")
	fs.Parse(args)
	noRetry = !*retry
	t0 := time.Now()
	v, err := Load(*repo, strings.Split(*pkg, ","))
	if err != nil {
		fmt.Println("load error:", err)
		os.Exit(2)
	}
	for _, e := range v.loadErrs {
		fmt.Println("LOAD:", e)
	}
	fmt.Printf("loaded in %.1fs\n", time.Since(t0).Seconds())
	dir := *keep
	if dir == "" {
		dir, _ = os.MkdirTemp("/var/tmp", "govc")
		defer os.RemoveAll(dir)
	} else {
		os.MkdirAll(dir, 0o755)
	}
	var keys []string
	for k := range v.contracts {
		keys = append(keys, k)
	}
	sort.Strings(keys)
	bad := 0
	for _, k := range keys {
		c := v.contracts[k]
		if *fnName != "" && c.Func != *fnName {
			continue
		}
		inPkg := false
		for _, pat := range strings.Split(*pkg, ",") {
			if strings.HasSuffix(c.PkgPath, strings.TrimPrefix(pat, ".")) {
				inPkg = true
			}
		}
		if !inPkg {
			continue
		}
		if c.Abstract || c.Trusted || (c.Inline && *fnName == "") {
			continue
		}
		t1 := time.Now()
		res := v.VerifyFunc(c)
		gen := time.Since(t1)
		if res.Unsupported != "" {
			fmt.Printf("== %s: UNSUPPORTED: %s\n", c.Func, res.Unsupported)
			bad++
		}
		if res.Fn == nil {
			continue
		}
		if *only != "" {
			for _, o := range res.Obls {
				if !strings.Contains(o.Name, *only) && o.Status == "" {
					o.Status = "proved"
					o.Solver = "skipped"
				}
			}
		}
		extraModelTerms = res.Shows
		dischargeAll(res, dir, *timeout, 0, 6, inputVars(res))
		np, nf := 0, 0
		for _, o := range res.Obls {
			if o.Status == "proved" {
				np++
			} else {
				nf++
			}
		}
		fmt.Printf("== %s: %d obligations, %d proved, %d not (gen %.2fs, total %.2fs)\n", c.Func, len(res.Obls), np, nf, gen.Seconds(), time.Since(t1).Seconds())
		for _, o := range res.Obls {
			if o.Status != "proved" || *verbose {
				fmt.Printf("   %-8s %-7s %5dms %s  %s\n", o.Status, shortSolver(o.Solver), o.Ms, o.Name, o.Pos)
				if o.Status != "proved" {
					bad++
					if len(o.Model) > 0 {
						var ks []string
						for k := range o.Model {
							ks = append(ks, k)
						}
						sort.Strings(ks)
						var sb strings.Builder
						for _, k := range ks {
							fmt.Fprintf(&sb, " %s=%s", k, o.Model[k])
						}
						fmt.Printf("            model:%s\n", truncate(sb.String(), 20000))
					}
					if o.Note != "" {
						fmt.Printf("            note: %s\n", truncate(o.Note, 300))
					}
					fmt.Printf("            vc: %s\n", o.Detail)
				}
			}
		}
	}
	if bad > 0 {
		os.Exit(1)
	}
}

func shortSolver(s string) string {
	if i := strings.Index(s, "-"); i > 0 && len(s) > 8 {
		return s[:8]
	}
	return s
}

// govc gen -pkg ./cdr/asn : print the generated clause file
func cmdGen(args []string) {
	fs := flag.NewFlagSet("gen", flag.ExitOnError)
	repo := fs.String("repo", "/repo", "")
	pkg := fs.String("pkg", "", "")
	fs.Parse(args)
	v, err := Load(*repo, strings.Split(*pkg, ","))
	if err != nil {
		fmt.Println(err)
		os.Exit(2)
	}
	for _, e := range v.loadErrs {
		fmt.Println("LOAD:", e)
	}
	for p, s := range v.genFiles {
		fmt.Println("// ---- ", p)
		fmt.Println(s)
	}
}
