package main

// The `encoder` interface of package cdr/asn as a pair of assumed method contracts. Every implementation
// in the package is verified against the same specification (the primitive encoders, structEncoder,
// berTypeEncoder), which closes the modular argument over the interface:
//   Len():        a non-negative size below the physical bound, a function of the receiver only (encoders
//                 are immutable while a value is being marshalled);
//   Encode(dst):  requires Len() <= len(dst) ("encode" obligation at the call); writes only dst[:Len()].

import (
	"go/token"
	"go/types"

	"golang.org/x/tools/go/ssa"
)

func init() {
	encLen := func(recv VIface) *Term { return App("asn.encoder.Len", BV64, recv.Tag, recv.Pay) }
	key := "github.com/free5gc/chf/cdr/asn.encoder."
	regExtern(key+"Len", "asn.encoder.Len(): 0 <= result <= 2^44, a function of the receiver only (assumed for every implementation; each implementation in the package is verified to satisfy it)",
		func(ex *Exec, fr *Frame, st *State, pc *Term, fn *ssa.Function, args []Value, pos token.Pos) (Value, *Term) {
			n := encLen(args[0].(VIface))
			ex.assumeAlways(And(SLe(C64(0), n), SLe(n, C64(int64(SizeBound)))))
			return VBV{n}, pc
		})
	regExtern(key+"Encode", "asn.encoder.Encode(dst): obligation Len() <= len(dst); writes only dst[:Len()] (assumed for every implementation; each implementation in the package is verified to satisfy it)",
		func(ex *Exec, fr *Frame, st *State, pc *Term, fn *ssa.Function, args []Value, pos token.Pos) (Value, *Term) {
			recv := args[0].(VIface)
			dst := args[1].(VSlice)
			n := encLen(recv)
			ex.assumeAlways(And(SLe(C64(0), n), SLe(n, C64(int64(SizeBound)))))
			ex.oblige(fr, "encode", "encoder.Encode needs Len() bytes of room: "+ex.srcText(pos), pos, pc, SLe(n, dst.Len), ex.safetyProps)
			byteSl := types.NewSlice(types.Typ[types.Uint8])
			ex.havocTargets(st, pc, []modTarget{{kind: "elems", val: VSlice{dst.Arr, dst.Off, n, n}, typ: byteSl}})
			return VTuple{}, pc
		})
	externWrites[key+"Encode"] = []string{eCompName(types.Typ[types.Uint8], 0)}
}

// Package reflect as an opaque dependency: every result is an arbitrary well-typed value, nothing of the
// modelled state changes, and reflect's own panics (Set with a mismatching type, Field out of range, ...)
// are NOT modelled - what is checked in code that uses reflection is the code's own indexing, slicing and
// arithmetic. NumField() is a non-negative function of the receiver.
func init() {
	numField := func(ex *Exec, fr *Frame, st *State, pc *Term, fn *ssa.Function, args []Value, pos token.Pos) (Value, *Term) {
		var ls []*Term
		for _, a := range args {
			ls = append(ls, toLeaves(a)...)
		}
		n := App("reflect.NumField", BV64, ls...)
		ex.assumeAlways(And(SLe(C64(0), n), SLe(n, C64(1<<20))))
		return VBV{n}, pc
	}
	regExtern("reflect.Type.NumField", "reflect.Type.NumField(): a non-negative function of the receiver", numField)
	regExtern("(reflect.Value).NumField", "reflect.Value.NumField(): a non-negative function of the receiver", numField)
	regExtern("(reflect.Value).Len", "reflect.Value.Len(): a non-negative function of the receiver",
		func(ex *Exec, fr *Frame, st *State, pc *Term, fn *ssa.Function, args []Value, pos token.Pos) (Value, *Term) {
			var ls []*Term
			for _, a := range args {
				ls = append(ls, toLeaves(a)...)
			}
			n := App("reflect.Len", BV64, ls...)
			ex.assumeAlways(And(SLe(C64(0), n), SLe(n, C64(int64(SizeBound)))))
			return VBV{n}, pc
		})
	regPrefix("reflect.Type.", "reflect.Type methods: opaque results, no effect on modelled state; reflect's own panics are not modelled", pureOpaque)
	regPrefix("(reflect.Value).", "reflect.Value methods: opaque results, no effect on modelled state; of reflect's own panics only the call on the zero Value is modelled (obligation reflect-zero, in functions whose contract says reflect-validity: valid(ValueOf(x)) iff x != nil, valid(v.Elem()) iff !v.IsNil(), Kind() != Invalid iff valid, other Value results valid)", pureOpaque)
	regPrefix("(reflect.StructTag).", "reflect.StructTag methods: opaque results", pureOpaque)
	regPrefix("reflect.", "reflect functions: opaque results, no effect on modelled state", pureOpaque)
}

func init() {
	compSorts[compReflectEpoch] = BV64
	externWrites["(reflect.Value).Set"] = []string{compReflectEpoch}
	regExtern("(reflect.Value).Interface", "reflect.Value.Interface(): the value as an interface - a function of the receiver (opaque)",
		func(ex *Exec, fr *Frame, st *State, pc *Term, fn *ssa.Function, args []Value, pos token.Pos) (Value, *Term) {
			ls := toLeaves(args[0])
			return VIface{App("reflect.iface.tag", BV64, ls...), App("reflect.iface.pay", BV64, ls...)}, pc
		})
	regExtern("(reflect.Value).Type", "reflect.Value.Type(): a non-nil type descriptor (opaque)",
		func(ex *Exec, fr *Frame, st *State, pc *Term, fn *ssa.Function, args []Value, pos token.Pos) (Value, *Term) {
			tag := Fresh("reflect.type.tag", BV64)
			ex.assume(pc, Not(Eq(tag, C64(0))))
			return VIface{tag, Fresh("reflect.type.pay", BV64)}, pc
		})
}
