package main

// verif_validated(p): the part of govalidator's `valid:"..."` struct tags that the runtime relies on,
// derived mechanically from the tags in the current source on every run:
//   - a pointer member tagged `required` is non-nil, and what it points to is validated in turn;
//   - a pointer member tagged `optional` (or without `required`) is nil or validated;
//   - a string member tagged `required` is non-empty;
//   - a slice member tagged `required` is non-empty.
// Every other validator (host, port, url, in(...), custom ones) is dropped: the predicate is weaker
// than what govalidator enforces, which is the safe direction for the consumers' preconditions.

import (
	"go/types"
	"reflect"
	"strings"
)

func (ex *Exec) validatedPred(st *State, pc *Term, t types.Type, v Value, depth int) *Term {
	if depth > 6 {
		return True
	}
	switch x := v.(type) {
	case VPtr:
		pt, ok := under(t).(*types.Pointer)
		if !ok {
			return True
		}
		if _, isStruct := under(pt.Elem()).(*types.Struct); !isStruct {
			return True
		}
		if x.T == nil {
			return True
		}
		obj := ex.loadObj(st, pc, pt.Elem(), x.T)
		return Implies(Not(Eq(x.T, C64(0))), ex.validatedPred(st, pc, pt.Elem(), obj, depth+1))
	case VStruct:
		stt, ok := under(t).(*types.Struct)
		if !ok {
			return True
		}
		var cs []*Term
		for i := 0; i < stt.NumFields() && i < len(x.F); i++ {
			tag := reflect.StructTag(stt.Tag(i)).Get("valid")
			required := false
			for _, part := range strings.Split(tag, ",") {
				if strings.TrimSpace(part) == "required" {
					required = true
				}
			}
			ft := stt.Field(i).Type()
			switch fv := x.F[i].(type) {
			case VPtr:
				if required && fv.T != nil {
					cs = append(cs, Not(Eq(fv.T, C64(0))))
				}
				cs = append(cs, ex.validatedPred(st, pc, ft, fv, depth+1))
			case VStr:
				if required {
					cs = append(cs, Not(Eq(StrLen(fv.T), C64(0))))
				}
			case VSlice:
				if required {
					cs = append(cs, SLt(C64(0), fv.Len))
				}
			case VStruct:
				cs = append(cs, ex.validatedPred(st, pc, ft, fv, depth+1))
			}
		}
		return And(cs...)
	}
	return True
}
