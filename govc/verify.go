package main

import (
	"fmt"
	"go/ast"
	"go/token"
	"go/types"
	"os"
	"path/filepath"
	"sort"
	"strings"

	"golang.org/x/tools/go/ast/astutil"
	"golang.org/x/tools/go/packages"
	"golang.org/x/tools/go/ssa"
	"golang.org/x/tools/go/ssa/ssautil"
)

type Verifier struct {
	avpDefs        []avpDef
	avpErrs        []string
	repo           string
	fset           *token.FileSet
	prog           *ssa.Program
	pkgs           []*packages.Package
	allPkgs        map[string]*packages.Package
	contracts      map[string]*Contract // key: pkgpath + "::" + func
	ifaceC         map[string]*Contract // key: pkgpath + "::" + iface + "." + method
	clauseFns      map[string]*ssa.Function
	wsCache        map[*ssa.Function]map[string]bool
	globals        map[*ssa.Global]uint64
	loopCache      map[*ssa.Function][]*loopInfo
	used           map[*Contract]bool
	genFiles       map[string]string // overlay path -> content
	files          map[string]*ast.File
	srcs           map[string][]byte
	loadErrs       []string
	assumedAt      map[string]bool
	modularCallees map[*Contract]bool
}

func goEnv() []string {
	return append(os.Environ(), "GOFLAGS=-mod=mod", "GOPROXY=off", "GOSUMDB=off", "GOTOOLCHAIN=local", "GOOS=linux", "GOARCH=amd64", "CGO_ENABLED=0")
}

// Load runs phase 1 (contracts -> clause functions) and phase 2 (SSA with overlay).
func Load(repo string, patterns []string) (*Verifier, error) {
	v := &Verifier{repo: repo, contracts: map[string]*Contract{}, ifaceC: map[string]*Contract{}, clauseFns: map[string]*ssa.Function{},
		wsCache: map[*ssa.Function]map[string]bool{}, globals: map[*ssa.Global]uint64{}, loopCache: map[*ssa.Function][]*loopInfo{},
		used: map[*Contract]bool{}, assumedAt: map[string]bool{}, genFiles: map[string]string{}, files: map[string]*ast.File{}, srcs: map[string][]byte{}}
	// contracts of dependencies are needed at their call sites: every package of the repository
	// that has contract files is loaded as a root
	for _, extra := range discoverPackages(repo, "//@") {
		if !has(patterns, extra) {
			patterns = append(patterns, extra)
		}
	}
	// phase 1
	cfg1 := &packages.Config{Mode: packages.LoadSyntax, Dir: repo, BuildFlags: []string{"-tags=verif"}, Env: goEnv()}
	pk1, err := packages.Load(cfg1, patterns...)
	if err != nil {
		return nil, err
	}
	overlay := map[string][]byte{}
	type genPkg struct {
		p     *packages.Package
		plain []*Contract
		path  string
	}
	var gens []genPkg
	for _, p := range pk1 {
		for _, e := range p.Errors {
			v.loadErrs = append(v.loadErrs, "phase1: "+e.Error())
		}
		if len(p.GoFiles) == 0 {
			continue
		}
		dir := filepath.Dir(p.GoFiles[0])
		var cs []*Contract
		for _, cf := range contractFiles(dir) {
			c, err := parseContractFile(cf, p.PkgPath)
			if err != nil {
				return nil, err
			}
			cs = append(cs, c...)
		}
		if len(cs) == 0 {
			continue
		}
		for _, c := range cs {
			if strings.HasPrefix(c.Func, "interface ") {
				v.ifaceC[p.PkgPath+"::"+strings.TrimPrefix(c.Func, "interface ")] = c
				continue
			}
			v.contracts[p.PkgPath+"::"+c.Func] = c
		}
		var plain []*Contract
		for _, c := range cs {
			if !strings.HasPrefix(c.Func, "interface ") {
				plain = append(plain, c)
			}
		}
		src, errs := generateClauses(p, plain)
		for _, e := range errs {
			v.loadErrs = append(v.loadErrs, e.Error())
		}
		gp := filepath.Join(dir, "zz_clauses_gen_verif.go")
		overlay[gp] = []byte(src)
		v.genFiles[gp] = src
		gens = append(gens, genPkg{p, plain, gp})
	}
	// phase 2 (a second round when clause functions do not type-check against the current source: those
	// clauses are taken out and reported per clause instead of failing every check of the package)
	var pk2 []*packages.Package
	for round := 0; round < 2; round++ {
		cfg2 := &packages.Config{Mode: packages.LoadAllSyntax, Dir: repo, BuildFlags: []string{"-tags=verif"}, Env: goEnv(), Overlay: overlay}
		pk2, err = packages.Load(cfg2, patterns...)
		if err != nil {
			return nil, err
		}
		again := false
		var rest []string
		for _, p := range pk2 {
			for _, e := range p.Errors {
				charged := false
				if round == 0 {
					// position "file:line:col"
					parts := strings.SplitN(e.Pos, ":", 3)
					if len(parts) >= 2 {
						for _, g := range gens {
							if parts[0] == g.path {
								var line int
								fmt.Sscanf(parts[1], "%d", &line)
								if markBrokenAt(v.genFiles[g.path], line, "does not type-check against the current source: "+e.Msg, g.plain) {
									charged, again = true, true
								}
							}
						}
					}
				}
				if !charged {
					rest = append(rest, "phase2: "+e.Error())
				}
			}
		}
		if !again {
			v.loadErrs = append(v.loadErrs, rest...)
			break
		}
		for _, g := range gens {
			src, _ := generateClauses(g.p, g.plain)
			overlay[g.path] = []byte(src)
			v.genFiles[g.path] = src
		}
	}
	for _, g := range gens {
		for _, c := range g.plain {
			pruneBroken(c)
		}
	}
	v.pkgs = pk2
	v.allPkgs = map[string]*packages.Package{}
	packages.Visit(pk2, nil, func(p *packages.Package) {
		v.allPkgs[p.PkgPath] = p
	})
	for _, p := range pk2 {
		v.fset = p.Fset
		for i, f := range p.Syntax {
			if i < len(p.CompiledGoFiles) {
				v.files[p.CompiledGoFiles[i]] = f
			}
		}
	}
	prog, _ := ssautil.AllPackages(pk2, ssa.NaiveForm|ssa.GlobalDebug|ssa.InstantiateGenerics)
	prog.Build()
	v.prog = prog
	return v, nil
}

func (v *Verifier) ssaPkg(path string) *ssa.Package {
	p := v.allPkgs[path]
	if p == nil || p.Types == nil {
		return nil
	}
	return v.prog.Package(p.Types)
}

func (v *Verifier) contractFor(fn *ssa.Function) *Contract {
	if fn.Origin() != nil {
		fn = fn.Origin()
	}
	if fn.Pkg == nil {
		// anonymous functions: walk up
		if fn.Parent() != nil {
			p := fn
			for p.Parent() != nil {
				p = p.Parent()
			}
			if p.Pkg != nil {
				return v.contracts[p.Pkg.Pkg.Path()+"::"+fn.RelString(p.Pkg.Pkg)]
			}
		}
		return nil
	}
	return v.contracts[fn.Pkg.Pkg.Path()+"::"+fn.RelString(fn.Pkg.Pkg)]
}

func (v *Verifier) ifaceContract(it types.Type, method string) *Contract {
	n, ok := it.(*types.Named)
	if !ok || n.Obj().Pkg() == nil {
		return nil
	}
	return v.ifaceC[n.Obj().Pkg().Path()+"::"+n.Obj().Name()+"."+method]
}

func (v *Verifier) ifaceWrites(it types.Type, method string) []string {
	return nil
}

func (v *Verifier) noteUsed(c *Contract) { v.used[c] = true }

func (v *Verifier) clauseFn(cl *Clause) *ssa.Function {
	if f, ok := v.clauseFns[cl.FnName]; ok {
		return f
	}
	for _, p := range v.prog.AllPackages() {
		if f := p.Func(cl.FnName); f != nil {
			v.clauseFns[cl.FnName] = f
			return f
		}
	}
	return nil
}

func (v *Verifier) fnByName(pkg *ssa.Package, name string) *ssa.Function {
	if pkg != nil {
		if f := pkg.Func(name); f != nil {
			return f
		}
	}
	for _, p := range v.prog.AllPackages() {
		if f := p.Func(name); f != nil {
			return f
		}
	}
	return nil
}

// spec functions: functions declared in *_verif.go files (pure, inlined)
func (v *Verifier) isSpecFn(fn *ssa.Function) bool {
	if fn.Origin() != nil {
		fn = fn.Origin()
	}
	pos := fn.Pos()
	if !pos.IsValid() {
		if fn.Parent() != nil {
			return v.isSpecFn(fn.Parent())
		}
		return false
	}
	return strings.HasSuffix(v.fset.Position(pos).Filename, "_verif.go")
}

// autoInline: small repository helpers without contract that may be executed in place
func (v *Verifier) autoInline(fn *ssa.Function) bool {
	if fn.Origin() != nil {
		fn = fn.Origin()
	}
	if fn.Pkg == nil && fn.Parent() == nil {
		return false
	}
	root := fn
	for root.Parent() != nil {
		root = root.Parent()
	}
	if root.Pkg == nil || !strings.HasPrefix(root.Pkg.Pkg.Path(), "github.com/free5gc/chf") {
		return false
	}
	// recursion and loops are not inlined implicitly
	if len(findLoops(fn)) > 0 {
		return false
	}
	for _, b := range fn.Blocks {
		for _, in := range b.Instrs {
			if c, ok := in.(ssa.CallInstruction); ok {
				if c.Common().StaticCallee() == fn {
					return false
				}
			}
		}
	}
	return len(fn.Blocks) <= 40
}

func (v *Verifier) globalID(g *ssa.Global) *Term {
	if id, ok := v.globals[g]; ok {
		return Const(id, 64)
	}
	id := uint64(16 + len(v.globals))
	v.globals[g] = id
	return Const(id, 64)
}

func (v *Verifier) loopOf(fn *ssa.Function, ord int) *loopInfo {
	ls, ok := v.loopCache[fn]
	if !ok {
		ls = findLoops(fn)
		v.loopCache[fn] = ls
	}
	if ord < len(ls) {
		return ls[ord]
	}
	return nil
}

// exprAt: source text of the innermost expression at pos (for obligation labels)
func (v *Verifier) exprAt(pos token.Pos) string {
	if !pos.IsValid() {
		return "?"
	}
	p := v.fset.Position(pos)
	f := v.files[p.Filename]
	if f == nil {
		return "?"
	}
	path, _ := astutil.PathEnclosingInterval(f, pos, pos+1)
	for _, n := range path {
		switch n.(type) {
		case ast.Expr:
			if _, isIdent := n.(*ast.Ident); isIdent {
				continue
			}
			return v.text(n)
		case ast.Stmt:
			s := v.text(n)
			if i := strings.Index(s, "\n"); i >= 0 {
				s = s[:i]
			}
			return s
		}
	}
	return "?"
}

func (v *Verifier) text(n ast.Node) string {
	p, e := v.fset.Position(n.Pos()), v.fset.Position(n.End())
	src, ok := v.srcs[p.Filename]
	if !ok {
		if g, ok2 := v.genFiles[p.Filename]; ok2 {
			src = []byte(g)
		} else {
			src, _ = os.ReadFile(p.Filename)
		}
		v.srcs[p.Filename] = src
	}
	if p.Offset < 0 || e.Offset > len(src) || p.Offset > e.Offset {
		return "?"
	}
	return string(src[p.Offset:e.Offset])
}

// findFunction resolves "pkgpath::relname" to the SSA function.
func (v *Verifier) findFunction(pkgPath, rel string) *ssa.Function {
	sp := v.ssaPkg(pkgPath)
	if sp == nil {
		return nil
	}
	parts := strings.Split(rel, "$")
	base := parts[0]
	var fn *ssa.Function
	if strings.HasPrefix(base, "(") {
		j := strings.Index(base, ")")
		recv := base[1:j]
		meth := strings.TrimPrefix(base[j+1:], ".")
		ptr := strings.HasPrefix(recv, "*")
		recv = strings.TrimPrefix(recv, "*")
		tn, ok := sp.Members[recv].(*ssa.Type)
		if !ok {
			return nil
		}
		var t types.Type = tn.Type()
		if ptr {
			t = types.NewPointer(t)
		}
		sel := v.prog.MethodSets.MethodSet(t).Lookup(sp.Pkg, meth)
		if sel == nil {
			return nil
		}
		fn = v.prog.MethodValue(sel)
	} else {
		fn = sp.Func(base)
	}
	for _, p := range parts[1:] {
		if fn == nil {
			return nil
		}
		var k int
		fmt.Sscanf(p, "%d", &k)
		if k < 1 || k > len(fn.AnonFuncs) {
			return nil
		}
		fn = fn.AnonFuncs[k-1]
	}
	return fn
}

// ---------------------------------------------------------------- verifying one function

type FuncResult struct {
	Contract    *Contract
	Fn          *ssa.Function
	Obls        []*Obligation
	Assumptions []*Term
	Unsupported string
	Params      []string
	Shows       map[string]*Term
	Axioms      []*Term
}

func (v *Verifier) VerifyFunc(c *Contract) (res *FuncResult) {
	res = &FuncResult{Contract: c}
	fn := v.findFunction(c.PkgPath, c.Func)
	if fn == nil {
		res.Unsupported = "function not found: " + c.Func
		if c.Broken != "" {
			res.Unsupported = c.Broken
		}
		return
	}
	res.Fn = fn
	ex := &Exec{V: v, nameCount: map[string]int{}, curFn: fn, curContract: c, strict: c.Strict, safetyProps: c.SafetyProps, recDone: map[string]bool{}}
	defer func() {
		res.Obls = ex.obls
		res.Assumptions = ex.assumptions
		res.Axioms = ex.globalAxioms
		if r := recover(); r != nil {
			if u, ok := r.(Unsupported); ok {
				res.Unsupported = u.Msg
				return
			}
			if s, ok := r.(string); ok && strings.HasPrefix(s, "internal:") {
				res.Unsupported = s
				return
			}
			panic(r)
		}
	}()
	// clauses that do not apply to the current source (missing anchor or loop, identifiers that no longer
	// exist): each is a failed obligation of its own properties; the rest of the contract is still checked
	for _, cl := range c.BrokenClauses {
		label := cl.Kind + " " + cl.Text
		if cl.Anchor != "" {
			label = cl.Kind + " \"" + cl.Anchor + "\": " + cl.Text
		}
		o := &Obligation{Name: ex.oblName(&Frame{fn: fn}, "contract", "clause does not apply to the current source: "+label), Kind: "contract", Props: cl.Props,
			Fn: fn.String(), Status: "failed", PC: True, Goal: False, Note: cl.Broken}
		ex.obls = append(ex.obls, o)
	}
	idUpper = map[*Term][]idBound{}
	nextSyms = map[*Term]bool{}
	nextGE = map[*Term]idBound{}
	privateArrs = map[*Term]bool{}
	nonNeg = map[*Term]bool{}
	st := &State{cells: map[*ssa.Alloc]Value{}, heap: map[string]*Term{}, next: Var("next0", BV64)}
	nextSyms[st.next] = true
	ex.assume(True, ULt(C64(4096), st.next))
	ex.assume(True, ULt(st.next, C64(1<<50)))
	fr := &Frame{fn: fn, vals: map[ssa.Value]Value{}, top: true, contract: c, entryNext: st.next}
	for i, p := range fn.Params {
		name := p.Name()
		if name == "" || name == "_" {
			name = fmt.Sprintf("arg%d", i)
		}
		pv := namedValue(p.Type(), "in$"+name)
		ex.assumeWF(st, True, pv)
		fr.vals[p] = pv
		fr.params = append(fr.params, pv)
		res.Params = append(res.Params, name)
	}
	for _, fv := range fn.FreeVars {
		pv := namedValue(fv.Type(), "fv$"+fv.Name())
		ex.assumeWF(st, True, pv)
		fr.freeVars = append(fr.freeVars, pv)
	}
	if c.Entry {
		// a request handler starts without holding any mutex
		st.setComp(compHeld, ConstArr(heldSort, False))
	}
	fr.entry = st.clone()
	ex.topFrame = fr
	for _, r := range c.Requires {
		t := ex.evalClause(fr, st, True, r, nil)
		ex.assume(True, t)
	}
	// vacuity: the preconditions must be satisfiable
	ex.obls = append(ex.obls, &Obligation{Name: relName(fn) + "#vacuity:requires#1", Kind: "vacuity", Props: c.Props, Fn: fn.String(),
		NAssume: len(ex.assumptions), PC: True, Goal: False, Vacuity: true})
	if c.NoSafety {
		ex.safetyProps = nil
	}
	ex.runBody(fr, st, True)
	// postconditions
	var targets []modTarget
	if len(c.Modifies) > 0 || c.Lemma == false {
		targets = ex.modTargets(fr, fr.entry, True, c, fr.params)
	}
	reach := False
	for _, r := range fr.results {
		reach = Or(reach, r.pc)
		var rvals []Value
		switch fn.Signature.Results().Len() {
		case 0:
		case 1:
			rvals = []Value{r.val}
		default:
			rvals = r.val.(VTuple).F
		}
		for _, e := range c.Ensures {
			if e.Assumed {
				// an assumed post-condition (e.g. the behaviour of a remote peer, proved elsewhere): used by
				// callers, not checked against this body; listed in the evidence
				v.assumedAt[c.Func+": assumed ensures "+e.Text] = true
				continue
			}
			t := ex.evalClause(fr, r.st, r.pc, e, rvals)
			ex.oblige(fr, "post", e.Text, fn.Pos(), r.pc, t, e.Props)
		}
		for si, sh := range c.Shows {
			env := &clauseEnv{args: fr.params, results: rvals, pre: fr.entry}
			v := ex.evalClauseEnv(fr, r.st, r.pc, sh, env)
			for li, l := range toLeaves(v) {
				if res.Shows == nil {
					res.Shows = map[string]*Term{}
				}
				res.Shows[fmt.Sprintf("show$r%d$%d.%d$%s", len(res.Shows), si, li, mangle(truncate(sh.Text, 40)))] = l
			}
		}
		if len(r.st.defers) != 0 {
			panic(unsupported("pending defers at return"))
		}
		// lock typestate: every return leaves exactly the mutexes held that were held at entry
		if h, ok := r.st.heap[compHeld]; ok {
			h0 := fr.entry.comp(compHeld, heldSort)
			if h != h0 {
				l := Bound("l", BV64)
				ex.oblige(fr, "lock", "a mutex acquired by this function is still held at return (or one held at entry was released)", fn.Pos(), r.pc,
					Forall([]*Term{l}, Eq(Select(h, l), Select(h0, l))), ex.safetyProps)
			}
		}
		ex.frameObligations(fr, r, targets, c)
	}
	if len(fr.results) > 0 {
		ex.obls = append(ex.obls, &Obligation{Name: relName(fn) + "#vacuity:return-reachable#1", Kind: "vacuity", Props: c.Props, Fn: fn.String(),
			NAssume: len(ex.assumptions), PC: reach, Goal: False, Vacuity: true})
	}
	return
}

// frameObligations: every component changed by the function is unchanged outside the modifies set
func (ex *Exec) frameObligations(fr *Frame, r retInfo, targets []modTarget, c *Contract) {
	if c.Lemma || len(c.Props) == 0 {
		return
	}
	if !ex.V.needsFrame(c) {
		return
	}
	var names []string
	for n := range r.st.heap {
		names = append(names, n)
	}
	sort.Strings(names)
	next0 := fr.entry.next
	for _, n := range names {
		if strings.HasPrefix(n, "B|") || (strings.HasPrefix(n, "G|") && !objectKeyedGhost[n]) {
			continue // boxes are immutable once created; other ghost components are havocked at call sites
		}
		srt := compSorts[n]
		now := r.st.heap[n]
		was := fr.entry.comp(n, srt)
		if now == was {
			continue
		}
		if onlyFreshStores(now, was, next0, 0) {
			// every update of this component is at an object allocated by this function: objects that
			// existed at entry are untouched (decided syntactically)
			ex.recordTrivial(fr, "frame", n, fr.fn.Pos(), c.Props)
			continue
		}
		goal := ex.frameGoal(targets, n, now, was, next0)
		ex.oblige(fr, "frame", n, fr.fn.Pos(), r.pc, goal, c.Props)
	}
}

// frameGoal: component n (now) equals its entry value (was) at every object that existed at entry
// (id < next0) and is not a modifies target
func (ex *Exec) frameGoal(targets []modTarget, n string, now, was, next0 *Term) *Term {
	srt := compSorts[n]
	i := Bound("i", srt.Idx)
	var goal *Term
	if strings.HasPrefix(n, "E|") {
		// rows that are not targeted are unchanged as a whole; targeted rows are unchanged
		// outside every targeted window (stated relative to the slice offset so that the
		// goal's reads have the same shape as the code's reads)
		var wins []VSlice
		for _, t := range targets {
			if t.kind != "elems" {
				continue
			}
			et := under(t.typ).(*types.Slice).Elem()
			if strings.HasPrefix(n, "E|"+typeKey(et)+"|") {
				wins = append(wins, t.val.(VSlice))
			}
		}
		var notT []*Term
		for _, w := range wins {
			notT = append(notT, Not(Eq(i, w.Arr)))
		}
		goals := []*Term{Forall([]*Term{i}, Implies(And(append([]*Term{ULt(i, next0)}, notT...)...), Eq(Select(now, i), Select(was, i))))}
		for _, w := range wins {
			k := Bound("k", BV64)
			abs := Add(w.Off, k)
			var inAny []*Term
			for _, u := range wins {
				inAny = append(inAny, And(Eq(w.Arr, u.Arr), SLe(u.Off, abs), SLt(abs, Add(u.Off, u.Len))))
			}
			goals = append(goals, Forall([]*Term{k}, Implies(Not(Or(inAny...)),
				Eq(Select(Select(now, w.Arr), abs), Select(Select(was, w.Arr), abs)))))
		}
		goal = And(goals...)
	} else if strings.HasPrefix(n, "M|") {
		j := Bound("j", srt.Elem.Idx)
		keep := And(ULt(i, next0), Not(ex.inMod(targets, n, i, j)))
		goal = Forall([]*Term{i, j}, Implies(keep, Eq(Select(Select(now, i), j), Select(Select(was, i), j))))
	} else {
		keep := And(ULt(i, next0), Not(ex.inMod(targets, n, i, nil)))
		goal = Forall([]*Term{i}, Implies(keep, Eq(Select(now, i), Select(was, i))))
	}
	return goal
}

// a frame is checked for functions that declare modifies, or that some function under
// contract calls through their contract (callers assume that only the modifies targets change)
func (v *Verifier) needsFrame(c *Contract) bool {
	if c.Inline {
		return false
	}
	if c.ModAny {
		return false // nothing is promised to callers, so there is nothing to check
	}
	if c.AssumedFrame {
		v.assumedAt[c.Func+": frame (modifies clauses) assumed, not checked against the body"] = true
		return false
	}
	if len(c.Modifies) > 0 {
		return true
	}
	if v.modularCallees == nil {
		v.modularCallees = map[*Contract]bool{}
		seen := map[*ssa.Function]bool{}
		var top *Contract
		var walk func(fn *ssa.Function)
		walk = func(fn *ssa.Function) {
			if fn == nil || seen[fn] {
				return
			}
			seen[fn] = true
			for _, b := range fn.Blocks {
				for _, in := range b.Instrs {
					ci, ok := in.(ssa.CallInstruction)
					if !ok {
						continue
					}
					g := ci.Common().StaticCallee()
					if g == nil {
						if mc, ok := ci.Common().Value.(*ssa.MakeClosure); ok {
							g = mc.Fn.(*ssa.Function)
						} else {
							continue
						}
					}
					if gc := v.contractFor(g); gc != nil && !gc.Inline && !gc.Abstract {
						if top != nil && g.Pkg != nil && has(top.InlineCalls, g.RelString(g.Pkg.Pkg)) {
							walk(g) // executed in place by this caller (inline-calls)
							continue
						}
						v.modularCallees[gc] = true
						continue
					}
					if len(g.Blocks) > 0 && g.Pkg != nil && strings.HasPrefix(g.Pkg.Pkg.Path(), "github.com/free5gc/chf") {
						walk(g) // executed in place
					}
				}
			}
			for _, a := range fn.AnonFuncs {
				walk(a)
			}
		}
		for _, oc := range v.contracts {
			if oc.Abstract {
				continue
			}
			top = oc
			seen = map[*ssa.Function]bool{}
			walk(v.findFunction(oc.PkgPath, oc.Func))
		}
	}
	return v.modularCallees[c]
}

// onlyFreshStores: `now` is `was` updated only at identifiers >= entryNext (objects allocated later)
func onlyFreshStores(now, was, entryNext *Term, depth int) bool {
	if now == was {
		return true
	}
	if depth > 4000 {
		return false
	}
	switch now.Op {
	case "store":
		if !freshID(now.Args[1], entryNext) {
			return false
		}
		return onlyFreshStores(now.Args[0], was, entryNext, depth+1)
	case "ite":
		return onlyFreshStores(now.Args[1], was, entryNext, depth+1) && onlyFreshStores(now.Args[2], was, entryNext, depth+1)
	}
	return false
}

// freshID: idx is entryNext + k (k >= 0) or an offset of a later allocation counter symbol
func freshID(idx, entryNext *Term) bool {
	b, k, ok := splitAddConst(idx)
	if !ok || !nextSyms[b] {
		return false
	}
	eb, ek, _ := splitAddConst(entryNext)
	if b == eb {
		return k >= ek
	}
	// later counters are >= the counter they replaced
	cur := b
	for d := 0; d < 64; d++ {
		g, ok := nextGE[cur]
		if !ok {
			return false
		}
		if g.base == eb && g.k >= ek {
			return true
		}
		cur = g.base
	}
	return false
}

// ghost components indexed by object identifiers: framed like ordinary heap components
var objectKeyedGhost = map[string]bool{compBufRow: true, compBufLen: true}
