package main

// Symbolic values and type flattening.

import (
	"fmt"
	"go/types"
	"strings"

	"golang.org/x/tools/go/ssa"
)

type Value interface{}

type (
	VBV   struct{ T *Term }
	VBool struct{ T *Term }
	VStr  struct{ T *Term }
	VPtr  struct {
		T  *Term   // object id (BV64); nil when LV != nil
		LV *LValue // interior pointer (executor-level only)
	}
	VSlice  struct{ Arr, Off, Len, Cap *Term }
	VIface  struct{ Tag, Pay *Term }
	VMap    struct{ T *Term }
	VOpaque struct{ T *Term } // chan, func-in-heap, unsafe pointer, float...: BV64
	VStruct struct{ F []Value }
	VArr    struct {
		Leaves []*Term // per leaf of the element type: Array(BV64 -> leaf sort)
		N      int64   // array length
	}
	VFunc struct {
		Fn    *ssa.Function
		Binds []Value
		St    *State // when set: a specification closure to be evaluated in this (pre-)state
	}
	VTuple struct{ F []Value }
)

const SizeBound = uint64(1) << 44 // physical size bound on lengths/capacities

func under(t types.Type) types.Type {
	for {
		switch x := t.(type) {
		case *types.Named:
			t = x.Underlying()
		case *types.Alias:
			t = types.Unalias(x)
		default:
			return t.Underlying()
		}
	}
}

func typeKey(t types.Type) string {
	u := under(t)
	switch x := u.(type) {
	case *types.Struct:
		// struct identity by field names and types (tags ignored)
		var sb strings.Builder
		sb.WriteString("struct{")
		for i := 0; i < x.NumFields(); i++ {
			f := x.Field(i)
			sb.WriteString(f.Name())
			sb.WriteByte(' ')
			sb.WriteString(strings.NewReplacer("byte", "uint8", "rune", "int32").Replace(types.TypeString(f.Type(), nil)))
			sb.WriteByte(';')
		}
		sb.WriteString("}")
		return sb.String()
	}
	if b, ok := u.(*types.Basic); ok {
		// byte/uint8 and rune/int32 are the same type
		return types.Typ[b.Kind()].Name()
	}
	return strings.NewReplacer("byte", "uint8", "rune", "int32").Replace(types.TypeString(u, nil))
}

func intWidth(b *types.Basic) (int, bool) { // width, signed
	switch b.Kind() {
	case types.Int8:
		return 8, true
	case types.Int16:
		return 16, true
	case types.Int32:
		return 32, true
	case types.Int64, types.Int, types.UntypedInt, types.UntypedRune:
		return 64, true
	case types.Uint8:
		return 8, false
	case types.Uint16:
		return 16, false
	case types.Uint32:
		return 32, false
	case types.Uint64, types.Uint, types.Uintptr:
		return 64, false
	}
	return 0, false
}

func isSigned(t types.Type) bool {
	if b, ok := under(t).(*types.Basic); ok {
		_, s := intWidth(b)
		return s
	}
	return false
}

func isFloat(t types.Type) bool {
	if b, ok := under(t).(*types.Basic); ok {
		return b.Info()&(types.IsFloat|types.IsComplex) != 0
	}
	return false
}

// leafPtr: for each leaf of the flattened type, does it hold an object/array/map identifier?
var leafPtrCache = map[string][]bool{}

func leafPtr(t types.Type) []bool {
	k := types.TypeString(t, nil)
	if r, ok := leafPtrCache[k]; ok {
		return r
	}
	var out []bool
	switch x := under(t).(type) {
	case *types.Pointer, *types.Map:
		out = []bool{true}
	case *types.Slice:
		out = []bool{true, false, false, false}
		k2 := k
		leafSizeCache[k2] = []bool{false, true, true, true}
	case *types.Interface:
		out = []bool{false, false}
	case *types.Struct:
		for i := 0; i < x.NumFields(); i++ {
			out = append(out, leafPtr(x.Field(i).Type())...)
		}
	case *types.Array:
		out = leafPtr(x.Elem())
	case *types.Tuple:
		for i := 0; i < x.Len(); i++ {
			out = append(out, leafPtr(x.At(i).Type())...)
		}
	default:
		out = make([]bool, len(leafSorts(t)))
	}
	leafPtrCache[k] = out
	return out
}

// compPtr: heap components whose cells hold identifiers (pointers, slice arrays, maps)
var compPtr = map[string]bool{}

// compSize: heap components whose cells hold a slice offset, length or capacity (0 .. SizeBound)
var compSize = map[string]bool{}
var leafSizeCache = map[string][]bool{}

// leafSize: for each leaf, is it a slice offset/length/capacity?
func leafSize(t types.Type) []bool {
	var out []bool
	switch x := under(t).(type) {
	case *types.Slice:
		return []bool{false, true, true, true}
	case *types.Struct:
		for i := 0; i < x.NumFields(); i++ {
			out = append(out, leafSize(x.Field(i).Type())...)
		}
		return out
	case *types.Array:
		return leafSize(x.Elem())
	}
	return make([]bool, len(leafSorts(t)))
}

// leafSorts returns the flattened SMT sorts of a Go type.
func leafSorts(t types.Type) []*Sort {
	switch x := under(t).(type) {
	case *types.Basic:
		switch {
		case x.Info()&types.IsBoolean != 0:
			return []*Sort{BoolSort}
		case x.Info()&types.IsString != 0:
			return []*Sort{StrSort}
		case x.Info()&types.IsInteger != 0:
			w, _ := intWidth(x)
			return []*Sort{BV(w)}
		case x.Info()&(types.IsFloat|types.IsComplex) != 0:
			return []*Sort{BV64}
		case x.Kind() == types.UnsafePointer:
			return []*Sort{BV64}
		case x.Kind() == types.UntypedNil:
			return []*Sort{BV64}
		}
	case *types.Pointer, *types.Map, *types.Chan, *types.Signature:
		return []*Sort{BV64}
	case *types.Slice:
		return []*Sort{BV64, BV64, BV64, BV64}
	case *types.Interface:
		return []*Sort{BV64, BV64}
	case *types.Struct:
		var out []*Sort
		for i := 0; i < x.NumFields(); i++ {
			out = append(out, leafSorts(x.Field(i).Type())...)
		}
		return out
	case *types.Array:
		var out []*Sort
		for _, s := range leafSorts(x.Elem()) {
			out = append(out, ArrSort(BV64, s))
		}
		return out
	case *types.Tuple:
		var out []*Sort
		for i := 0; i < x.Len(); i++ {
			out = append(out, leafSorts(x.At(i).Type())...)
		}
		return out
	}
	panic(unsupported("leafSorts: " + t.String()))
}

type Unsupported struct{ Msg string }

func (u Unsupported) Error() string { return "unsupported: " + u.Msg }
func unsupported(msg string) Unsupported {
	return Unsupported{msg}
}

// closure side table: closures stored in the heap are represented by a constant id
var closureTab = map[uint64]VFunc{}
var fnIDs = map[*ssa.Function]uint64{}
var fnByID = map[uint64]*ssa.Function{}

func fnID(f *ssa.Function) uint64 {
	if id, ok := fnIDs[f]; ok {
		return id
	}
	id := uint64(0x7f00000000000000) + uint64(len(fnIDs)+1)
	fnIDs[f] = id
	fnByID[id] = f
	return id
}

func toLeaves(v Value) []*Term {
	switch x := v.(type) {
	case VBV:
		return []*Term{x.T}
	case VBool:
		return []*Term{x.T}
	case VStr:
		return []*Term{x.T}
	case VPtr:
		if x.T == nil {
			panic(unsupported("interior pointer escapes to memory/call: " + x.LV.String()))
		}
		return []*Term{x.T}
	case VSlice:
		return []*Term{x.Arr, x.Off, x.Len, x.Cap}
	case VIface:
		return []*Term{x.Tag, x.Pay}
	case VMap:
		return []*Term{x.T}
	case VOpaque:
		return []*Term{x.T}
	case VStruct:
		var out []*Term
		for _, f := range x.F {
			out = append(out, toLeaves(f)...)
		}
		return out
	case VTuple:
		var out []*Term
		for _, f := range x.F {
			out = append(out, toLeaves(f)...)
		}
		return out
	case VArr:
		return x.Leaves
	case VFunc:
		if len(x.Binds) == 0 && x.St == nil {
			return []*Term{Const(fnID(x.Fn), 64)}
		}
		id := uint64(0x7e00000000000000) + uint64(len(closureTab)+1)
		closureTab[id] = x
		return []*Term{Const(id, 64)}
	}
	panic(fmt.Sprintf("toLeaves: %T", v))
}

func fromLeaves(t types.Type, ls []*Term) Value {
	v, rest := fromLeaves1(t, ls)
	if len(rest) != 0 {
		panic("fromLeaves: leftover leaves for " + t.String())
	}
	return v
}

func fromLeaves1(t types.Type, ls []*Term) (Value, []*Term) {
	switch x := under(t).(type) {
	case *types.Basic:
		switch {
		case x.Info()&types.IsBoolean != 0:
			return VBool{ls[0]}, ls[1:]
		case x.Info()&types.IsString != 0:
			return VStr{ls[0]}, ls[1:]
		case x.Info()&types.IsInteger != 0:
			return VBV{ls[0]}, ls[1:]
		case x.Kind() == types.UntypedNil:
			return VPtr{T: ls[0]}, ls[1:]
		default:
			return VOpaque{ls[0]}, ls[1:]
		}
	case *types.Pointer:
		return VPtr{T: ls[0]}, ls[1:]
	case *types.Map:
		return VMap{ls[0]}, ls[1:]
	case *types.Chan:
		return VOpaque{ls[0]}, ls[1:]
	case *types.Signature:
		if ls[0].IsConst() {
			if c, ok := closureTab[ls[0].Val]; ok {
				return c, ls[1:]
			}
			if f, ok := fnByID[ls[0].Val]; ok {
				return VFunc{Fn: f}, ls[1:]
			}
		}
		return VOpaque{ls[0]}, ls[1:]
	case *types.Slice:
		return VSlice{ls[0], ls[1], ls[2], ls[3]}, ls[4:]
	case *types.Interface:
		return VIface{ls[0], ls[1]}, ls[2:]
	case *types.Struct:
		var fs []Value
		for i := 0; i < x.NumFields(); i++ {
			var f Value
			f, ls = fromLeaves1(x.Field(i).Type(), ls)
			fs = append(fs, f)
		}
		return VStruct{fs}, ls
	case *types.Tuple:
		var fs []Value
		for i := 0; i < x.Len(); i++ {
			var f Value
			f, ls = fromLeaves1(x.At(i).Type(), ls)
			fs = append(fs, f)
		}
		return VTuple{fs}, ls
	case *types.Array:
		n := len(leafSorts(x.Elem()))
		return VArr{Leaves: ls[:n], N: x.Len()}, ls[n:]
	}
	panic(unsupported("fromLeaves: " + t.String()))
}

func zeroLeaf(s *Sort) *Term {
	switch s.Kind {
	case SBool:
		return False
	case SBV:
		return Const(0, s.W)
	case SArray:
		return ConstArr(s, zeroLeaf(s.Elem))
	case SUninterp:
		if s == StrSort {
			return EmptyStr()
		}
	}
	panic("zeroLeaf " + s.String())
}

func zeroValue(t types.Type) Value {
	ss := leafSorts(t)
	ls := make([]*Term, len(ss))
	for i, s := range ss {
		ls[i] = zeroLeaf(s)
	}
	return fromLeaves(t, ls)
}

func freshValue(t types.Type, name string) Value {
	ss := leafSorts(t)
	ls := make([]*Term, len(ss))
	for i, s := range ss {
		ls[i] = Fresh(fmt.Sprintf("%s.%d", name, i), s)
	}
	return fromLeaves(t, ls)
}

// namedValue: deterministic names (for parameters; used by replay)
func namedValue(t types.Type, name string) Value {
	ss := leafSorts(t)
	ls := make([]*Term, len(ss))
	for i, s := range ss {
		ls[i] = Var(fmt.Sprintf("%s.%d", name, i), s)
	}
	return fromLeaves(t, ls)
}

// leaf range of field k inside struct type
func fieldLeafRange(st *types.Struct, k int) (int, int) {
	lo := 0
	for i := 0; i < k; i++ {
		lo += len(leafSorts(st.Field(i).Type()))
	}
	return lo, lo + len(leafSorts(st.Field(k).Type()))
}

// ite over values
func iteValue(c *Term, a, b Value) Value {
	if c.IsTrue() {
		return a
	}
	if c.IsFalse() {
		return b
	}
	switch x := a.(type) {
	case VBV:
		return VBV{Ite(c, x.T, b.(VBV).T)}
	case VBool:
		return VBool{Ite(c, x.T, b.(VBool).T)}
	case VStr:
		return VStr{Ite(c, x.T, b.(VStr).T)}
	case VPtr:
		y, ok := b.(VPtr)
		if !ok {
			panic(fmt.Sprintf("iteValue ptr vs %T", b))
		}
		if x.T != nil && y.T != nil {
			return VPtr{T: Ite(c, x.T, y.T)}
		}
		if x.LV != nil && y.LV != nil && x.LV.String() == y.LV.String() {
			return a
		}
		panic(unsupported("merge of distinct interior pointers"))
	case VSlice:
		y := b.(VSlice)
		return VSlice{Ite(c, x.Arr, y.Arr), Ite(c, x.Off, y.Off), Ite(c, x.Len, y.Len), Ite(c, x.Cap, y.Cap)}
	case VIface:
		y := b.(VIface)
		return VIface{Ite(c, x.Tag, y.Tag), Ite(c, x.Pay, y.Pay)}
	case VMap:
		return VMap{Ite(c, x.T, b.(VMap).T)}
	case VOpaque:
		switch y := b.(type) {
		case VOpaque:
			return VOpaque{Ite(c, x.T, y.T)}
		case VFunc:
			return VOpaque{Ite(c, x.T, toLeaves(y)[0])}
		}
	case VFunc:
		switch y := b.(type) {
		case VFunc:
			if x.Fn == y.Fn && len(x.Binds) == 0 && len(y.Binds) == 0 {
				return a
			}
			return VOpaque{Ite(c, toLeaves(x)[0], toLeaves(y)[0])}
		case VOpaque:
			return VOpaque{Ite(c, toLeaves(x)[0], y.T)}
		}
	case VStruct:
		y := b.(VStruct)
		fs := make([]Value, len(x.F))
		for i := range x.F {
			fs[i] = iteValue(c, x.F[i], y.F[i])
		}
		return VStruct{fs}
	case VTuple:
		y := b.(VTuple)
		fs := make([]Value, len(x.F))
		for i := range x.F {
			fs[i] = iteValue(c, x.F[i], y.F[i])
		}
		return VTuple{fs}
	case VArr:
		y := b.(VArr)
		ls := make([]*Term, len(x.Leaves))
		for i := range ls {
			ls[i] = Ite(c, x.Leaves[i], y.Leaves[i])
		}
		return VArr{ls, x.N}
	}
	panic(fmt.Sprintf("iteValue: %T / %T", a, b))
}

func sameValue(a, b Value) bool {
	switch x := a.(type) {
	case VPtr:
		y, ok := b.(VPtr)
		if !ok {
			return false
		}
		if x.T != nil || y.T != nil {
			return x.T == y.T
		}
		return x.LV.String() == y.LV.String()
	case VFunc:
		y, ok := b.(VFunc)
		return ok && x.Fn == y.Fn && len(x.Binds) == 0 && len(y.Binds) == 0
	case VStruct:
		y, ok := b.(VStruct)
		if !ok || len(x.F) != len(y.F) {
			return false
		}
		for i := range x.F {
			if !sameValue(x.F[i], y.F[i]) {
				return false
			}
		}
		return true
	case VTuple:
		y, ok := b.(VTuple)
		if !ok || len(x.F) != len(y.F) {
			return false
		}
		for i := range x.F {
			if !sameValue(x.F[i], y.F[i]) {
				return false
			}
		}
		return true
	}
	defer func() { recover() }()
	la, lb := toLeaves(a), toLeaves(b)
	if len(la) != len(lb) {
		return false
	}
	for i := range la {
		if la[i] != lb[i] {
			return false
		}
	}
	return true
}

// ---- strings as an uninterpreted sort with axiomatised operations

func EmptyStr() *Term { return StrLit("") }

var strLits = map[string]*Term{}
var strLitOrder []string

func StrLit(s string) *Term {
	if t, ok := strLits[s]; ok {
		return t
	}
	t := App(fmt.Sprintf("strlit%d", len(strLits)), StrSort)
	strLits[s] = t
	strLitOrder = append(strLitOrder, s)
	return t
}

func StrLen(s *Term) *Term {
	for lit, t := range strLits {
		if t == s {
			return C64(int64(len(lit)))
		}
	}
	if s.Op == "app" && s.Name == "gostr.concat" {
		return Add(StrLen(s.Args[0]), StrLen(s.Args[1]))
	}
	if s.Op == "app" && s.Name == "gostr.sub" {
		return Sub(s.Args[2], s.Args[1])
	}
	if s.Op == "app" && s.Name == "gostr.frombytes" {
		return s.Args[2]
	}
	if s.Op == "ite" {
		return Ite(s.Args[0], StrLen(s.Args[1]), StrLen(s.Args[2]))
	}
	return App("gostr.len", BV64, s)
}

func litOf(s *Term) (string, bool) {
	for lit, t := range strLits {
		if t == s {
			return lit, true
		}
	}
	return "", false
}

func StrRow(s *Term) *Term { return App("gostr.row", ArrSort(BV64, BV8), s) }

func StrAt(s, i *Term) *Term {
	if lit, ok := litOf(s); ok && i.IsConst() && i.Val < uint64(len(lit)) {
		return Const(uint64(lit[i.Val]), 8)
	}
	if s.Op == "app" && s.Name == "gostr.frombytes" {
		// str.frombytes(row, off, len)
		return Select(s.Args[0], Add(s.Args[1], i))
	}
	if s.Op == "app" && s.Name == "gostr.sub" {
		return StrAt(s.Args[0], Add(s.Args[1], i))
	}
	return Select(StrRow(s), i)
}

func StrConcat(a, b *Term) *Term {
	la, oka := litOf(a)
	lb, okb := litOf(b)
	if oka && okb {
		return StrLit(la + lb)
	}
	if oka && la == "" {
		return b
	}
	if okb && lb == "" {
		return a
	}
	return App("gostr.concat", StrSort, a, b)
}

// s[lo:hi]
func StrSub(s, lo, hi *Term) *Term {
	if lit, ok := litOf(s); ok && lo.IsConst() && hi.IsConst() && lo.Val <= hi.Val && hi.Val <= uint64(len(lit)) {
		return StrLit(lit[lo.Val:hi.Val])
	}
	if lo.IsConst() && lo.Val == 0 && hi == StrLen(s) {
		return s
	}
	return App("gostr.sub", StrSort, s, lo, hi)
}

// string(bytes): content of row[off:off+len]
func StrFromBytes(row, off, ln *Term) *Term {
	return App("gostr.frombytes", StrSort, row, off, ln)
}

// axioms about string operations, instantiated for the string terms that occur (ground instances:
// quantifier-free, so that refutable obligations still get models)
func stringAxioms(order []*Term) []*Term {
	hasStr := false
	for _, t := range order {
		if t.Sort == StrSort {
			hasStr = true
		}
	}
	if !hasStr {
		return nil
	}
	var ax []*Term
	seenT := map[int]bool{}
	var work []*Term
	push := func(t *Term) {
		if !seenT[t.id] && !t.bound {
			seenT[t.id] = true
			work = append(work, t)
		}
	}
	for _, t := range order {
		push(t)
	}
	slen := func(x *Term) *Term { return App("gostr.len", BV64, x) }
	sat := func(x, k *Term) *Term { return Select(StrRow(x), k) }
	bound := C64(int64(SizeBound))
	var lits []string
	litSeen := map[string]bool{}
	add := func(t *Term) {
		ax = append(ax, t)
		sub, _ := collect([]*Term{t})
		for _, x := range sub {
			push(x)
		}
	}
	for i := 0; i < len(work) && i < 20000; i++ {
		t := work[i]
		if lit, ok := litOf(t); ok && !litSeen[lit] {
			litSeen[lit] = true
			lits = append(lits, lit)
			continue
		}
		if t.Op != "app" {
			continue
		}
		switch t.Name {
		case "gostr.len":
			add(And(SLe(C64(0), t), SLe(t, bound)))
		case "gostr.concat":
			a, b := t.Args[0], t.Args[1]
			add(Eq(slen(t), Add(slen(a), slen(b))))
			add(Eq(App("gostr.sub", StrSort, t, slen(a), Add(slen(a), slen(b))), b))
			add(Eq(App("gostr.sub", StrSort, t, C64(0), slen(a)), a))
			// concatenation is injective in its second argument for a fixed first one (left-cancellation)
		case "gostr.sub":
			x, lo, hi := t.Args[0], t.Args[1], t.Args[2]
			add(Implies(And(SLe(C64(0), lo), SLe(lo, hi), SLe(hi, slen(x))), Eq(slen(t), Sub(hi, lo))))
			add(Implies(And(Eq(lo, C64(0)), Eq(hi, slen(x))), Eq(t, x)))
		case "gostr.frombytes":
			add(Implies(And(SLe(C64(0), t.Args[2]), SLe(t.Args[2], bound)), Eq(slen(t), t.Args[2])))
		case "itoa":
			add(And(App("atoi.ok", BoolSort, t), Eq(App("atoi.val", BV64, t), t.Args[0]), SLe(C64(1), slen(t)), SLe(slen(t), C64(20))))
		}
	}
	for i, l := range lits {
		t := strLits[l]
		ax = append(ax, Eq(slen(t), C64(int64(len(l)))))
		for j := 0; j < len(l) && j < 64; j++ {
			ax = append(ax, Eq(sat(t, C64(int64(j))), Const(uint64(l[j]), 8)))
		}
		for _, m := range lits[i+1:] {
			ax = append(ax, Not(Eq(t, strLits[m])))
		}
	}
	// character-level axioms stay quantified (needed only where string contents are read)
	uses := map[string]bool{}
	for _, t := range work {
		if t.Op == "app" {
			uses[t.Name] = true
		}
	}
	if uses["gostr.row"] {
		s := Bound("s", StrSort)
		u := Bound("u", StrSort)
		lo := Bound("lo", BV64)
		hi := Bound("hi", BV64)
		i := Bound("i", BV64)
		if uses["gostr.concat"] {
			cc := App("gostr.concat", StrSort, s, u)
			ax = append(ax, Forall([]*Term{s, u, i}, Implies(And(SLe(C64(0), i), SLt(i, slen(s))), Eq(sat(cc, i), sat(s, i))), []*Term{sat(cc, i)}))
			ax = append(ax, Forall([]*Term{s, u, i}, Implies(And(SLe(slen(s), i), SLt(i, Add(slen(s), slen(u)))), Eq(sat(cc, i), sat(u, Sub(i, slen(s))))), []*Term{sat(cc, i)}))
		}
		if uses["gostr.sub"] {
			sb := App("gostr.sub", StrSort, s, lo, hi)
			ax = append(ax, Forall([]*Term{s, lo, hi, i}, Implies(And(SLe(C64(0), lo), SLe(lo, hi), SLe(hi, slen(s)), SLe(C64(0), i), SLt(i, Sub(hi, lo))), Eq(sat(sb, i), sat(s, Add(lo, i)))), []*Term{sat(sb, i)}))
		}
		if uses["gostr.frombytes"] {
			row := Bound("row", ArrSort(BV64, BV8))
			fb := App("gostr.frombytes", StrSort, row, lo, hi)
			ax = append(ax, Forall([]*Term{row, lo, hi, i}, Implies(And(SLe(C64(0), i), SLt(i, hi)), Eq(sat(fb, i), Select(row, Add(lo, i)))), []*Term{sat(fb, i)}))
		}
	}
	return ax
}
