package main

// govc check: decide one property on /repo's current working tree.

import (
	"crypto/sha1"
	"encoding/json"
	"flag"
	"fmt"
	"os"
	"path/filepath"
	"sort"
	"strings"
	"time"
)

type finding struct {
	Kind     string // finding | fixed
	Property string
	Obl      string // obligation name (prefix match when ending in *)
	Text     string
}

func loadFindings(path string) []finding {
	data, err := os.ReadFile(path)
	if err != nil {
		return nil
	}
	var out []finding
	for _, line := range strings.Split(string(data), "\n") {
		line = strings.TrimSpace(line)
		if line == "" || strings.HasPrefix(line, "#") {
			continue
		}
		var f finding
		switch {
		case strings.HasPrefix(line, "finding:"):
			f.Kind = "finding"
			line = strings.TrimSpace(strings.TrimPrefix(line, "finding:"))
		case strings.HasPrefix(line, "fixed:"):
			f.Kind = "fixed"
			line = strings.TrimSpace(strings.TrimPrefix(line, "fixed:"))
		default:
			continue
		}
		for _, fld := range strings.Fields(line) {
			if strings.HasPrefix(fld, "property=") {
				f.Property = strings.TrimPrefix(fld, "property=")
			}
		}
		if i := strings.Index(line, "obligation="); i >= 0 {
			rest := line[i+len("obligation="):]
			if strings.HasPrefix(rest, "\"") {
				j := strings.Index(rest[1:], "\"")
				if j >= 0 {
					f.Obl = rest[1 : j+1]
					f.Text = strings.TrimSpace(rest[j+2:])
				}
			} else {
				fs := strings.SplitN(rest, " ", 2)
				f.Obl = fs[0]
				if len(fs) > 1 {
					f.Text = fs[1]
				}
			}
		} else {
			f.Text = line
		}
		out = append(out, f)
	}
	return out
}

func matchFinding(fs []finding, prop, obl string) *finding {
	for i := range fs {
		f := &fs[i]
		if f.Kind != "finding" || f.Property != prop || f.Obl == "" {
			continue
		}
		if f.Obl == obl || (strings.HasSuffix(f.Obl, "*") && strings.HasPrefix(obl, strings.TrimSuffix(f.Obl, "*"))) {
			return f
		}
	}
	return nil
}

func has(xs []string, x string) bool {
	for _, y := range xs {
		if y == x {
			return true
		}
	}
	return false
}

// contractTouches: does the contract carry obligations for the property?
func contractTouches(c *Contract, prop string) bool {
	if has(c.Props, prop) || has(c.SafetyProps, prop) {
		return true
	}
	var all []*Clause
	all = append(all, c.Requires...)
	all = append(all, c.Ensures...)
	all = append(all, c.Asserts...)
	for _, is := range c.Invs {
		all = append(all, is...)
	}
	for _, ps := range c.Preserved {
		all = append(all, ps...)
	}
	for _, cl := range all {
		if has(cl.Props, prop) {
			return true
		}
	}
	return false
}

// discoverPackages: directories under repo with *_verif.go contract files mentioning the property
func discoverPackages(repo, prop string) []string {
	var pats []string
	filepath.Walk(repo, func(path string, info os.FileInfo, err error) error {
		if err != nil {
			return nil
		}
		if info.IsDir() && (info.Name() == ".git" || info.Name() == "vendor") {
			return filepath.SkipDir
		}
		if !info.IsDir() && strings.HasSuffix(path, "_verif.go") {
			data, _ := os.ReadFile(path)
			if strings.Contains(string(data), prop) || (prop == "//@" && strings.Contains(string(data), "// @")) {
				rel, _ := filepath.Rel(repo, filepath.Dir(path))
				p := "./" + rel
				if !has(pats, p) {
					pats = append(pats, p)
				}
			}
		}
		return nil
	})
	sort.Strings(pats)
	return pats
}

type oblReport struct {
	Name   string `json:"name"`
	Kind   string `json:"kind"`
	Fn     string `json:"function"`
	Status string `json:"status"`
	Solver string `json:"solver,omitempty"`
	Ms     int64  `json:"ms"`
}

func cmdCheck(args []string) {
	fs := flag.NewFlagSet("check", flag.ExitOnError)
	repo := fs.String("repo", "/repo", "")
	prop := fs.String("prop", "", "property id")
	tier := fs.String("tier", "quick", "quick|thorough")
	seed := fs.Int("seed", 0, "")
	verifDir := fs.String("verif", "/verif", "")
	fs.Parse(args)
	t0 := time.Now()
	timeout := 20
	if *tier == "thorough" {
		timeout = 120
		confirmAll = true
	}
	evPath := filepath.Join(*verifDir, "evidence", *prop+".json")
	replayDir := filepath.Join(*verifDir, "evidence", "replay")
	os.MkdirAll(replayDir, 0o755)
	findings := loadFindings(filepath.Join(*verifDir, "known_findings.txt"))

	fail := func(msg string) {
		// a broken check must not look like a pass
		rp := filepath.Join(replayDir, *prop+"-setup.json")
		os.WriteFile(rp, []byte(fmt.Sprintf("{\"error\": %q}\n", msg)), 0o644)
		fmt.Printf("VIOLATION property=%s replay=%s %s no-failing-input-found\n", *prop, rp, msg)
		os.Exit(1)
	}
	pats := discoverPackages(*repo, *prop)
	if len(pats) == 0 {
		fail("no contracts found for the property")
	}
	v, err := Load(*repo, pats)
	if err != nil {
		fail("load error: " + err.Error())
	}
	if len(v.loadErrs) > 0 {
		fail("contract/type errors: " + strings.Join(v.loadErrs, "; "))
	}
	dir, _ := os.MkdirTemp("/var/tmp", "govc")
	defer os.RemoveAll(dir)

	var keys []string
	for k := range v.contracts {
		keys = append(keys, k)
	}
	sort.Strings(keys)
	var reports []oblReport
	byBackend := map[string]int{}
	nConfirmed := 0
	var fnNames []string
	var violations, known []string
	nObl, nDis := 0, 0
	var solverMs int64
	var unsupportedFns []string
	var skippedTier []string
	var boundedNotes []string
	nBounded := 0
	exit := 0
	trustedFns := []string{}
	for _, k := range keys {
		c := v.contracts[k]
		if c.Abstract {
			continue
		}
		if c.Trusted {
			if contractTouches(c, *prop) {
				trustedFns = append(trustedFns, c.Func+" (assumed contract, body not verified)")
			}
			continue
		}
		if !contractTouches(c, *prop) || c.Inline {
			continue // inline contracts are checked in the context of their callers
		}
		if c.Tier == "thorough" && *tier != "thorough" {
			skippedTier = append(skippedTier, c.Func)
			continue
		}
		res := v.VerifyFunc(c)
		fnNames = append(fnNames, c.PkgPath+"."+c.Func)
		if c.Bounded != "" {
			boundedNotes = append(boundedNotes, c.Func+": "+c.Bounded)
		}
		if res.Unsupported != "" {
			unsupportedFns = append(unsupportedFns, c.Func+": "+res.Unsupported)
			name := fmt.Sprintf("%s#unsupported", c.Func)
			if f := matchFinding(findings, *prop, name); f != nil {
				known = append(known, fmt.Sprintf("KNOWN-FINDING: property=%s %s %s", *prop, name, f.Text))
			} else {
				rp := writeReplay(replayDir, *prop, &Obligation{Name: name, Kind: "unsupported", Fn: c.Func, Detail: res.Unsupported}, nil, "")
				violations = append(violations, fmt.Sprintf("VIOLATION property=%s replay=%s obligation=%q the verifier cannot process the function: %s no-failing-input-found", *prop, rp, name, res.Unsupported))
			}
			continue
		}
		// only this property's obligations are solved
		for _, o := range res.Obls {
			if !has(o.Props, *prop) {
				o.Status = "skipped" // belongs to another property's check
			}
		}
		extraModelTerms = modelTerms(res)
		dischargeAll(res, dir, timeout, *seed, 5, inputVars(res))
		for _, o := range res.Obls {
			if o.Status == "skipped" {
				continue
			}
			reports = append(reports, oblReport{o.Name, o.Kind, c.Func, o.Status, o.Solver, o.Ms})
			if o.Confirmed >= 2 {
				nConfirmed++
			}
			if o.Status == "proved" {
				be := o.Solver
				if be == "" {
					be = "simplifier"
				}
				byBackend[be]++
			}
			solverMs += o.Ms
			if o.Status == "proved" {
				if c.Bounded != "" {
					// bounded stand-ins are reported separately and never counted as proved
					nBounded++
					continue
				}
				nObl++
				nDis++
				continue
			}
			if f := matchFinding(findings, *prop, o.Name); f != nil {
				known = append(known, fmt.Sprintf("KNOWN-FINDING: property=%s obligation=%q %s", *prop, o.Name, f.Text))
				continue
			}
			nObl++
			outcome := ""
			if o.Status == "failed" && len(o.Model) > 0 {
				outcome = tryReplay(v, res, o, dir)
			}
			rp := writeReplay(replayDir, *prop, o, res, outcome)
			tail := ""
			if !strings.HasPrefix(outcome, "reproduced") {
				tail = " no-failing-input-found"
			}
			violations = append(violations, fmt.Sprintf("VIOLATION property=%s replay=%s obligation=%q status=%s%s", *prop, rp, o.Name, o.Status, tail))
		}
	}
	if nObl == 0 && len(known) == 0 {
		fail("no obligations were generated for the property (vacuous check)")
	}
	for _, l := range known {
		fmt.Println(l)
	}
	for _, l := range violations {
		fmt.Println(l)
		exit = 1
	}
	// evidence
	sort.Strings(fnNames)
	var samples []oblReport
	for i, r := range reports {
		if i < 40 || r.Status != "proved" || r.Ms > 4000 {
			samples = append(samples, r)
		}
		if r.Ms > 4000 {
			fmt.Printf("slow: %dms %s %s\n", r.Ms, r.Solver, r.Name)
		}
	}
	tb := []string{"go/parser, go/types, go/ssa (golang.org/x/tools v0.29.0) as the semantics of the Go source; build configuration linux/amd64, tag verif",
		"govc: symbolic execution, heap model and SMT encoding (see DESIGN.md section 2); guarded by the must-fail corpus in /verif/selftest",
		"SMT solvers z3 5.1.0, z3 4.8.12, cvc5 1.0 (first definitive answer wins)"}
	tb = append(tb, usedExternDocs()...)
	tb = append(tb, trustedFns...)
	var assumedAt []string
	for k := range v.assumedAt {
		assumedAt = append(assumedAt, "assumption left unchecked (assume-at clause, assumed ensures or assumed frame): "+k)
	}
	sort.Strings(assumedAt)
	tb = append(tb, assumedAt...)
	ev := map[string]interface{}{
		"property_id": *prop,
		"tier":        *tier,
		"seed":        *seed,
		"level":       "proof",
		"coverage": map[string]interface{}{
			"obligations":                      nObl,
			"discharged":                       nDis,
			"checker_cmd":                      fmt.Sprintf("/verif/bin/govc check -prop %s -tier %s", *prop, *tier),
			"trusted_base":                     tb,
			"functions_under_contract":         fnNames,
			"samples":                          samples,
			"solver_ms_total":                  solverMs,
			"discharged_by_backend":            byBackend,
			"confirmed_by_two_or_more_solvers": nConfirmed,
			"known_findings":                   known,
			"unsupported":                      unsupportedFns,
			"bounded":                          map[string]interface{}{"checks": boundedNotes, "obligations_passed": nBounded, "note": "bounded stand-ins: not counted in obligations/discharged"},
			"thorough_only":                    skippedTier,
			"packages":                         pats,
			"explanation":                      "every obligation is a verification condition generated from /repo's current source and discharged by an SMT solver; obligations listed under known_findings are excluded from the counts",
		},
		"assumptions": append([]string{"integers are fixed-width bit-vectors with Go semantics (no mathematical integers)",
			"sequential execution of one function at a time; callees are replaced by their contracts",
			"lengths and capacities below 2^44 (physical size bound)"}, usedExternDocs()...),
		"wall_s":     time.Since(t0).Seconds(),
		"violations": len(violations),
	}
	data, _ := json.MarshalIndent(ev, "", " ")
	os.MkdirAll(filepath.Dir(evPath), 0o755)
	os.WriteFile(evPath, data, 0o644)
	fmt.Printf("property %s: %d obligations, %d discharged, %d known findings, %d violations, %.1fs\n", *prop, nObl, nDis, len(known), len(violations), time.Since(t0).Seconds())
	os.RemoveAll(dir) // os.Exit skips the deferred removal: the VC files of a run can be several hundred MB
	os.Exit(exit)
}

func writeReplay(dir, prop string, o *Obligation, res *FuncResult, outcome string) string {
	h := sha1.Sum([]byte(o.Name))
	path := filepath.Join(dir, fmt.Sprintf("%s-%x.json", prop, h[:6]))
	m := map[string]interface{}{
		"property":   prop,
		"obligation": o.Name,
		"kind":       o.Kind,
		"function":   o.Fn,
		"position":   o.Pos,
		"status":     o.Status,
		"solver":     o.Solver,
		"model":      o.Model,
		"note":       o.Note,
		"detail":     o.Detail,
		"outcome":    outcome,
	}
	if o.ReplaySrc != "" {
		m["replay_test_go"] = o.ReplaySrc
		m["replay_pkg_dir"] = o.ReplayDir
	}
	if outcome == "" {
		m["outcome"] = "no replay: " + map[bool]string{true: "the solver gave no model (unknown/timeout)", false: "no concrete input could be built from the model"}[len(o.Model) == 0]
	}
	if o.Detail != "" && strings.HasSuffix(o.Detail, ".smt2") {
		if vc, err := os.ReadFile(o.Detail); err == nil && len(vc) < 200000 {
			m["vc_smt2"] = string(vc)
		}
	}
	data, _ := json.MarshalIndent(m, "", " ")
	os.WriteFile(path, data, 0o644)
	return path
}
