package main

// Assumed contracts: sync.Mutex (lock typestate), sync.Map, encoding/json deep copy, misc.

import (
	"go/token"
	"go/types"
	"strings"

	"golang.org/x/tools/go/ssa"
)

const compHeld = "G|held"

var heldSort = ArrSort(BV64, BoolSort)

// lockID: identity of a mutex given the address expression of its receiver
func lockID(v Value) *Term {
	p := v.(VPtr)
	if p.LV == nil {
		return Mul(p.T, C64(4096))
	}
	lv := p.LV
	if lv.Cell != nil || lv.Elem {
		panic(unsupported("mutex in a local variable or slice element"))
	}
	h := int64(0)
	for _, s := range lv.Path {
		if s.IsIdx {
			panic(unsupported("mutex inside an array"))
		}
		h = h*37 + int64(s.Field) + 1
	}
	return Add(Mul(lv.P, C64(4096)), C64(h%4096))
}

// freshLockFact: a mutex inside an object allocated after the function under verification was entered
// cannot be among the mutexes held at entry (quantifier-free instance for the lock at hand)
func (ex *Exec) freshLockFact(pc *Term, v Value) {
	tf := ex.topFrame
	if tf == nil || tf.entry == nil || tf.entryNext == nil {
		return
	}
	p, ok := v.(VPtr)
	if !ok {
		return
	}
	base := p.T
	if p.LV != nil {
		base = p.LV.P
	}
	if base == nil {
		return
	}
	ex.assumeAlways(Implies(ULe(tf.entryNext, base), Not(Select(tf.entry.comp(compHeld, heldSort), lockID(v)))))
}

func init() {
	compSorts[compHeld] = heldSort
	regExtern("(*sync.Mutex).Lock", "Mutex.Lock: requires the mutex not to be held by this request already (self-deadlock); marks it held",
		func(ex *Exec, fr *Frame, st *State, pc *Term, fn *ssa.Function, args []Value, pos token.Pos) (Value, *Term) {
			id := lockID(args[0])
			ex.freshLockFact(pc, args[0])
			h := st.comp(compHeld, heldSort)
			ex.oblige(fr, "lock", "Lock of a mutex this request already holds: "+ex.srcText(pos), pos, pc, Not(Select(h, id)), ex.safetyProps)
			ex.noteWrite(compHeld)
			st.setComp(compHeld, Store(h, id, True))
			return VTuple{}, pc
		})
	regExtern("(*sync.Mutex).Unlock", "Mutex.Unlock: requires the mutex to be held; marks it free",
		func(ex *Exec, fr *Frame, st *State, pc *Term, fn *ssa.Function, args []Value, pos token.Pos) (Value, *Term) {
			id := lockID(args[0])
			h := st.comp(compHeld, heldSort)
			ex.oblige(fr, "lock", "Unlock of a mutex that is not held: "+ex.srcText(pos), pos, pc, Select(h, id), ex.safetyProps)
			ex.noteWrite(compHeld)
			st.setComp(compHeld, Store(h, id, False))
			return VTuple{}, pc
		})
	externWrites["(*sync.Mutex).Lock"] = []string{compHeld}
	externWrites["(*sync.Mutex).Unlock"] = []string{compHeld}

	// sync.Map: an abstract table; element type known per field (checked: only such values are stored)
	regExtern("(*sync.Map).Load", "sync.Map.Load(key): (value, ok) of an abstract table; for CHFContext.UePool the value is a non-nil *ChfUe",
		func(ex *Exec, fr *Frame, st *State, pc *Term, fn *ssa.Function, args []Value, pos token.Pos) (Value, *Term) {
			mid := lockID(args[0])
			k := args[1].(VIface)
			ver := st.comp("G|syncmap.ver", ArrSort(BV64, BV64))
			ok := App("syncmap.ok", BoolSort, mid, Select(ver, mid), k.Tag, ex.ifaceKey(st, pc, k))
			pay := App("syncmap.val", BV64, mid, Select(ver, mid), k.Tag, ex.ifaceKey(st, pc, k))
			tag := Fresh("syncmap.tag", BV64)
			if et := ex.syncMapElem(args[0]); et != nil {
				tag = Const(typeTag(et), 64)
				ex.assume(pc, Implies(ok, And(Not(Eq(pay, C64(0))), ULt(pay, st.next))))
			}
			return VTuple{[]Value{VIface{Ite(ok, tag, C64(0)), Ite(ok, pay, C64(0))}, VBool{ok}}}, pc
		})
	regExtern("(*sync.Map).Store", "sync.Map.Store: the abstract table changes (new version)",
		func(ex *Exec, fr *Frame, st *State, pc *Term, fn *ssa.Function, args []Value, pos token.Pos) (Value, *Term) {
			mid := lockID(args[0])
			ver := st.comp("G|syncmap.ver", ArrSort(BV64, BV64))
			ex.noteWrite("G|syncmap.ver")
			st.setComp("G|syncmap.ver", Store(ver, mid, Fresh("syncmap.newver", BV64)))
			return VTuple{}, pc
		})
	compSorts["G|syncmap.ver"] = ArrSort(BV64, BV64)
	externWrites["(*sync.Map).Store"] = []string{"G|syncmap.ver"}

	regExtern("encoding/json.Marshal", "json.Marshal: opaque bytes, any error", pureOpaque)
	regExtern("encoding/json.Unmarshal", "json.Unmarshal(data, &p) into a pointer variable: p becomes nil or a new object of arbitrary well-typed content; any error",
		func(ex *Exec, fr *Frame, st *State, pc *Term, fn *ssa.Function, args []Value, pos token.Pos) (Value, *Term) {
			d := args[1].(VIface)
			if !d.Tag.IsConst() {
				panic(unsupported("json.Unmarshal into a statically unknown type"))
			}
			pt, ok := under(tagTypes[d.Tag.Val]).(*types.Pointer)
			if !ok {
				panic(unsupported("json.Unmarshal into a non-pointer"))
			}
			v := freshValue(pt.Elem(), "json")
			if ip, isPtr := under(pt.Elem()).(*types.Pointer); isPtr {
				// **T: a fresh object or nil
				np := ex.alloc(st, pc)
				content := freshValue(ip.Elem(), "json.obj")
				ex.assumeWF(st, pc, content)
				ex.storeObj(st, ip.Elem(), np, content)
				v = VPtr{T: Ite(Fresh("json.nil", BoolSort), C64(0), np)}
			} else {
				ex.assumeWF(st, pc, v)
			}
			ex.storeObj(st, pt.Elem(), d.Pay, v)
			return VIface{Fresh("json.err", BV64), Fresh("json.errp", BV64)}, pc
		})
	externWrites["encoding/json.Unmarshal"] = []string{"next"}
	regPrefix("github.com/free5gc/util/idgenerator.", "idgenerator: opaque", pureOpaque)
	regPrefix("(*github.com/free5gc/util/idgenerator.IDGenerator).", "idgenerator: opaque", pureOpaque)
}

// ifaceKey: content identity of an interface value used as a key (strings by content)
func (ex *Exec) ifaceKey(st *State, pc *Term, k VIface) *Term {
	if k.Tag.IsConst() {
		if t := tagTypes[k.Tag.Val]; t != nil {
			if b, ok := under(t).(*types.Basic); ok && b.Info()&types.IsString != 0 {
				s := ex.unbox(st, pc, k.Pay, t).(VStr).T
				return App("strkey", BV64, s)
			}
		}
	}
	return k.Pay
}

// syncMapElem: element type of well-known sync.Map fields
func (ex *Exec) syncMapElem(recv Value) types.Type {
	p, ok := recv.(VPtr)
	if !ok || p.LV == nil || len(p.LV.Path) == 0 {
		return nil
	}
	stt, ok := under(p.LV.T).(*types.Struct)
	if !ok {
		return nil
	}
	f := stt.Field(p.LV.Path[len(p.LV.Path)-1].Field)
	if f.Name() == "UePool" && strings.HasSuffix(types.TypeString(p.LV.T, nil), "context.CHFContext") {
		// UePool only ever stores *ChfUe (AddChfUeToUePool is the only writer)
		for _, pkg := range ex.V.prog.AllPackages() {
			if pkg.Pkg.Path() == "github.com/free5gc/chf/internal/context" {
				if tn, ok := pkg.Members["ChfUe"].(*ssa.Type); ok {
					return types.NewPointer(tn.Type())
				}
			}
		}
	}
	return nil
}

// govalidator (reflection over struct tags): outside the verified subset
func init() {
	regExtern("github.com/asaskevich/govalidator.ValidateStruct", "govalidator.ValidateStruct(p): (bool, error) - either a nil error, and then the presence requirements of the valid tags of *p hold (required pointers non-nil recursively, required strings and lists non-empty: the predicate generated from the tags in the current source), or an error of dynamic type govalidator.Errors; no effect on modelled state",
		func(ex *Exec, fr *Frame, st *State, pc *Term, fn *ssa.Function, args []Value, pos token.Pos) (Value, *Term) {
			okv := Fresh("validate.ok", BoolSort)
			var errT types.Type
			for _, pkg := range ex.V.prog.AllPackages() {
				if pkg.Pkg.Path() == "github.com/asaskevich/govalidator" {
					if tn, ok := pkg.Members["Errors"].(*ssa.Type); ok {
						errT = tn.Type()
					}
				}
			}
			if errT == nil {
				panic(unsupported("govalidator.Errors not found"))
			}
			tag := Const(typeTag(errT), 64)
			pay := Fresh("validate.err", BV64)
			ex.assume(pc, And(Not(Eq(pay, C64(0))), ULt(pay, st.next)))
			// no error: the presence requirements of the `valid:"..."` tags of the argument's type hold
			// (the predicate generated from the tags in the current source, as for verif_validated)
			if a, isIface := args[0].(VIface); isIface && a.Tag.IsConst() {
				if pt, isPtr := under(tagTypes[a.Tag.Val]).(*types.Pointer); isPtr {
					if _, isStruct := under(pt.Elem()).(*types.Struct); isStruct {
						ex.assume(pc, Implies(okv, And(Not(Eq(a.Pay, C64(0))), ex.validatedPred(st, pc, tagTypes[a.Tag.Val], VPtr{T: a.Pay}, 0))))
					}
				}
			}
			return VTuple{[]Value{VBool{okv}, VIface{Ite(okv, C64(0), tag), Ite(okv, C64(0), pay)}}}, pc
		})
	regExtern("(github.com/asaskevich/govalidator.Errors).Errors", "govalidator.Errors.Errors(): the list itself (opaque content)", pureOpaque)
	regExtern("(github.com/asaskevich/govalidator.Errors).Error", "govalidator.Errors.Error(): opaque text", pureOpaque)
}

func init() {
	regPrefix("github.com/google/uuid.", "uuid: opaque values", pureOpaque)
	regPrefix("(github.com/google/uuid.UUID).", "uuid: opaque values", pureOpaque)
	regExtern("os.Getenv", "os.Getenv: opaque string", pureOpaque)
}

func init() {
	for _, m := range []string{"RLock", "RUnlock", "Lock", "Unlock"} {
		regExtern("(*sync.RWMutex)."+m, "sync.RWMutex."+m+": no effect on modelled state (reader/writer locks are not tracked)", pureOpaque)
	}
	regExtern("(*sync.WaitGroup).Done", "WaitGroup.Done: no effect on modelled state", pureOpaque)
	regExtern("(*sync.WaitGroup).Add", "WaitGroup.Add: no effect on modelled state", pureOpaque)
	regExtern("runtime/debug.Stack", "debug.Stack: opaque bytes", pureOpaque)
	regExtern("(*net/http.Server).ListenAndServe", "http.Server.ListenAndServe: serves until closed; any error result", pureOpaque)
	regExtern("(*net/http.Server).ListenAndServeTLS", "http.Server.ListenAndServeTLS: serves until closed; any error result", pureOpaque)
	regExtern("github.com/free5gc/chf/pkg/app.App.Terminate", "App.Terminate: no effect on modelled state", pureOpaque)
	regExtern("github.com/free5gc/chf/internal/sbi.ServerChf.Terminate", "App.Terminate: no effect on modelled state", pureOpaque)
}

func init() {
	// FTP client of the charging gateway function (internal/cgf): an opaque dependency
	regExtern("github.com/jlaffaye/ftp.Dial", "ftp.Dial: a non-nil connection and nil error, or nil and an error", func(ex *Exec, fr *Frame, st *State, pc *Term, fn *ssa.Function, args []Value, pos token.Pos) (Value, *Term) {
		p := Fresh("ftp.conn", BV64)
		ok := Fresh("ftp.dial.ok", BoolSort)
		ex.assume(pc, And(ULt(p, st.next), Eq(Not(Eq(p, C64(0))), ok)))
		errTag := Ite(ok, C64(0), Const(typeTag(types.Universe.Lookup("error").Type())+1002, 64))
		return VTuple{[]Value{VPtr{T: p}, VIface{errTag, Ite(ok, C64(0), Fresh("err$dial", BV64))}}}, pc
	})
	regPrefix("github.com/jlaffaye/ftp.", "ftp client options: opaque values", pureOpaque)
	regPrefix("(*github.com/jlaffaye/ftp.ServerConn).", "ftp client calls on a connection (receiver must not be nil): opaque results, no effect on modelled state", func(ex *Exec, fr *Frame, st *State, pc *Term, fn *ssa.Function, args []Value, pos token.Pos) (Value, *Term) {
		ex.safety(fr, "nil", pos, pc, Not(Eq(args[0].(VPtr).T, C64(0))))
		return freshResults(ex, st, pc, fn, "ftp$"+fn.Name()), pc
	})
	regExtern("bytes.NewReader", "bytes.NewReader: an opaque non-nil reader", func(ex *Exec, fr *Frame, st *State, pc *Term, fn *ssa.Function, args []Value, pos token.Pos) (Value, *Term) {
		p := Fresh("bytes.reader", BV64)
		ex.assume(pc, And(Not(Eq(p, C64(0))), ULt(p, st.next)))
		return VPtr{T: p}, pc
	})
}

func init() {
	// start-up of the CGF's in-process FTP server (internal/cgf.OpenServer): files, JSON and the ftpserver
	// packages are opaque dependencies
	nonNilPtrErr := func(what string) externFn {
		return func(ex *Exec, fr *Frame, st *State, pc *Term, fn *ssa.Function, args []Value, pos token.Pos) (Value, *Term) {
			// (non-nil object, nil) or (nil, error)
			p := Fresh(what, BV64)
			ok := Fresh(what+".ok", BoolSort)
			ex.assume(pc, And(ULt(p, st.next), Eq(Not(Eq(p, C64(0))), ok)))
			errTag := Ite(ok, C64(0), Const(typeTag(types.Universe.Lookup("error").Type())+1003, 64))
			return VTuple{[]Value{VPtr{T: p}, VIface{errTag, Ite(ok, C64(0), Fresh("err$"+what, BV64))}}}, pc
		}
	}
	regExtern("os.Create", "os.Create: a non-nil file, nil error (I/O assumed to succeed)", func(ex *Exec, fr *Frame, st *State, pc *Term, fn *ssa.Function, args []Value, pos token.Pos) (Value, *Term) {
		p := Fresh("os.file", BV64)
		ex.assume(pc, And(Not(Eq(p, C64(0))), ULt(p, st.next)))
		return VTuple{[]Value{VPtr{T: p}, VIface{C64(0), C64(0)}}}, pc
	})
	regExtern("(*encoding/json.Encoder).Encode", "json.Encoder.Encode to a file: nil error (encoding of plain configuration data and the write assumed to succeed)", func(ex *Exec, fr *Frame, st *State, pc *Term, fn *ssa.Function, args []Value, pos token.Pos) (Value, *Term) {
		return VIface{C64(0), C64(0)}, pc
	})
	regPrefix("(*os.File).", "os.File methods: opaque results, no effect on modelled state", pureOpaque)
	regExtern("encoding/json.NewEncoder", "json.NewEncoder: an opaque non-nil encoder", func(ex *Exec, fr *Frame, st *State, pc *Term, fn *ssa.Function, args []Value, pos token.Pos) (Value, *Term) {
		p := Fresh("json.encoder", BV64)
		ex.assume(pc, And(Not(Eq(p, C64(0))), ULt(p, st.next)))
		return VPtr{T: p}, pc
	})
	regPrefix("(*encoding/json.Encoder).", "json.Encoder methods: opaque results", pureOpaque)
	regExtern("github.com/fclairamb/ftpserver/config.NewConfig", "ftpserver config.NewConfig: a non-nil configuration and nil error, or nil and an error", nonNilPtrErr("ftp.config"))
	regExtern("github.com/fclairamb/ftpserver/server.NewServer", "ftpserver server.NewServer: a non-nil driver and nil error, or nil and an error", nonNilPtrErr("ftp.driver"))
	regExtern("github.com/fclairamb/ftpserverlib.NewFtpServer", "ftpserverlib.NewFtpServer: a non-nil server", func(ex *Exec, fr *Frame, st *State, pc *Term, fn *ssa.Function, args []Value, pos token.Pos) (Value, *Term) {
		return VPtr{T: ex.alloc(st, pc)}, pc
	})
	externWrites["github.com/fclairamb/ftpserverlib.NewFtpServer"] = []string{"next"}
	regPrefix("(*github.com/fclairamb/ftpserverlib.FtpServer).", "ftpserverlib.FtpServer methods: opaque results", pureOpaque)
	regPrefix("(*github.com/fclairamb/ftpserver/server.Server).", "ftpserver server.Server methods: opaque results", pureOpaque)
}
