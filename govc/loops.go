package main

import (
	"fmt"
	"go/token"
	"go/types"
	"sort"
	"strings"

	"golang.org/x/tools/go/ssa"
)

// ---------------------------------------------------------------- static write sets

// writeSetOfInstrs: heap components ("H|..","E|..","M|..","B|..","next") and cells ("cell:<ptr>") possibly written.
func (v *Verifier) addInstrWrites(fn *ssa.Function, in ssa.Instruction, ws map[string]bool, cells map[*ssa.Alloc]bool, visiting map[*ssa.Function]bool) {
	addH := func(t types.Type) {
		if a, ok := isArrayType(t); ok {
			regE(a.Elem(), ws)
			return
		}
		regH(t, ws, 0, -1)
	}
	addE := func(t types.Type) { regE(t, ws) }
	regFresh = false
	switch x := in.(type) {
	case *ssa.Alloc:
		if x.Heap {
			ws["next"] = true
			regFresh = true
			addH(under(x.Type()).(*types.Pointer).Elem())
			if types.TypeString(under(x.Type()).(*types.Pointer).Elem(), nil) == "bytes.Buffer" {
				ws[compBufLen] = true
			}
			regFresh = false
		} else {
			cells[x] = true
		}
	case *ssa.MakeSlice:
		ws["next"] = true
		regFresh = true
		addE(under(x.Type()).(*types.Slice).Elem())
		regFresh = false
	case *ssa.MakeMap:
		ws["next"] = true
		regFresh = true
		regM(under(x.Type()).(*types.Map), ws)
		regFresh = false
	case *ssa.MakeChan:
		ws["next"] = true
	case *ssa.MakeInterface:
		if _, isI := under(x.X.Type()).(*types.Interface); !isI && !directPayload(x.X.Type()) {
			ws["next"] = true
			for i, srt := range leafSorts(x.X.Type()) {
				ws[bCompName(x.X.Type(), i)] = true // boxes are written once, at a fresh id
				compSorts[bCompName(x.X.Type(), i)] = ArrSort(BV64, srt)
			}
		}
	case *ssa.Convert:
		if _, ok := under(x.Type()).(*types.Slice); ok {
			if b, ok := under(x.X.Type()).(*types.Basic); ok && b.Info()&types.IsString != 0 {
				ws["next"] = true
				regFresh = true
				addE(under(x.Type()).(*types.Slice).Elem())
				regFresh = false
			}
		}
	case *ssa.Store:
		// a store into an object allocated by this very code (function body, or the current loop
		// iteration when curLoopBody is set) cannot touch an object that existed before
		if ra, ok := rootAlloc(x.Addr); ok && ra.Heap && (curLoopBody == nil || curLoopBody[ra.Block()]) {
			regFresh = true
		} else if ok && ra.Heap && curLoopFn != nil && ra.Parent() == curLoopFn {
			regFnFresh = true
		}
		v.addrWrites(x.Addr, ws, cells)
		regFresh = false
		regFnFresh = false
	case *ssa.MapUpdate:
		regM(under(x.Map.Type()).(*types.Map), ws)
	case *ssa.Call:
		v.callWrites(fn, x.Common(), ws, visiting)
	case *ssa.Defer:
		v.callWrites(fn, &x.Call, ws, visiting)
	}
}

func (v *Verifier) addrWrites(addr ssa.Value, ws map[string]bool, cells map[*ssa.Alloc]bool) {
	// walk the address chain to its root
	var path []int // field indices (innermost last)
	cur := addr
	for {
		switch a := cur.(type) {
		case *ssa.FieldAddr:
			path = append([]int{a.Field}, path...)
			cur = a.X
			continue
		case *ssa.IndexAddr:
			switch xt := under(a.X.Type()).(type) {
			case *types.Slice:
				regE(xt.Elem(), ws)
				return
			case *types.Pointer: // *[N]T
				at := under(xt.Elem()).(*types.Array)
				// element of an array: the array may sit in a cell, in a struct or be an object
				if al, ok := rootAlloc(a.X); ok && !al.Heap {
					cells[al] = true
					return
				}
				// inside a struct in the heap: conservative = the containing struct's leaves
				if fa, ok := a.X.(*ssa.FieldAddr); ok {
					v.addrWrites(fa, ws, cells)
					return
				}
				regE(at.Elem(), ws)
				return
			}
		case *ssa.Alloc:
			if !a.Heap {
				cells[a] = true
				return
			}
		}
		break
	}
	pt, ok := under(cur.Type()).(*types.Pointer)
	if !ok {
		return
	}
	root := pt.Elem()
	if a, ok := isArrayType(root); ok {
		regE(a.Elem(), ws)
		return
	}
	lo, hi := 0, len(leafSorts(root))
	t := root
	for _, f := range path {
		stt, ok := under(t).(*types.Struct)
		if !ok {
			break
		}
		l, _ := fieldLeafRange(stt, f)
		lo += l
		t = stt.Field(f).Type()
		hi = lo + len(leafSorts(t))
	}
	regH(root, ws, lo, hi)
}

// curLoopBody: set while the write set of one loop is computed
var curLoopBody map[*ssa.BasicBlock]bool
var curLoopFn *ssa.Function

// regFresh: true while registering writes that only initialise freshly allocated objects.
// Keys "!name" mark components that may be written at pre-existing objects.
var regFresh bool

// regFnFresh: the write goes to an object allocated by the function that owns the loop, before the loop.
// Keys "!!name" mark components that may be written at objects older than the function's activation.
var regFnFresh bool

func markWS(ws map[string]bool, n string) {
	ws[n] = true
	if !regFresh {
		ws["!"+n] = true
		if !regFnFresh {
			ws["!!"+n] = true
		}
	}
}

func regH(t types.Type, ws map[string]bool, lo, hi int) {
	ss := leafSorts(t)
	if hi < 0 {
		hi = len(ss)
	}
	for i := lo; i < hi; i++ {
		n := hCompName(t, i)
		markWS(ws, n)
		compSorts[n] = ArrSort(BV64, ss[i])
	}
}

func regE(t types.Type, ws map[string]bool) {
	for i, srt := range leafSorts(t) {
		n := eCompName(t, i)
		markWS(ws, n)
		compSorts[n] = ArrSort(BV64, ArrSort(BV64, srt))
	}
}

func regM(mt *types.Map, ws map[string]bool) {
	pn, ps, vn, vs := mapComps(mt)
	markWS(ws, pn)
	compSorts[pn] = ps
	for i, n := range vn {
		markWS(ws, n)
		compSorts[n] = vs[i]
	}
}

func rootAlloc(v ssa.Value) (*ssa.Alloc, bool) {
	for {
		switch a := v.(type) {
		case *ssa.Alloc:
			return a, true
		case *ssa.FieldAddr:
			v = a.X
		case *ssa.IndexAddr:
			v = a.X
		default:
			return nil, false
		}
	}
}

func (v *Verifier) callWrites(fn *ssa.Function, cc *ssa.CallCommon, ws map[string]bool, visiting map[*ssa.Function]bool) {
	if b, ok := cc.Value.(*ssa.Builtin); ok {
		switch b.Name() {
		case "append":
			ws["next"] = true
			regE(under(cc.Args[0].Type()).(*types.Slice).Elem(), ws)
		case "copy":
			regE(under(cc.Args[0].Type()).(*types.Slice).Elem(), ws)
		case "delete":
			regM(under(cc.Args[0].Type()).(*types.Map), ws)
		}
		return
	}
	if cc.IsInvoke() {
		key := types.TypeString(cc.Value.Type(), nil) + "." + cc.Method.Name()
		if w, ok := externWrites[key]; ok {
			for _, c := range w {
				ws[c] = true
				if c != "next" {
					ws["!"+c] = true
					ws["!!"+c] = true
				}
			}
			return
		}
		if c := v.ifaceContract(cc.Value.Type(), cc.Method.Name()); c != nil {
			for _, w := range v.ifaceWrites(cc.Value.Type(), cc.Method.Name()) {
				ws[w] = true
			}
		}
		return
	}
	callee := cc.StaticCallee()
	if callee == nil {
		if mc, ok := cc.Value.(*ssa.MakeClosure); ok {
			callee = mc.Fn.(*ssa.Function)
		} else {
			return
		}
	}
	key := fnKey(callee)
	if w, ok := externWrites[key]; ok {
		for _, c := range w {
			ws[c] = true
			if c != "next" && !externFreshOnly[key+"|"+c] {
				ws["!"+c] = true
				ws["!!"+c] = true
			}
		}
		return
	}
	if _, ok := externs[key]; ok {
		return
	}
	if externByPrefix(key) != nil {
		return
	}
	if len(callee.Blocks) == 0 {
		return
	}
	if c := v.contractFor(callee); c != nil && !c.Inline && !c.Abstract {
		// a callee used through its contract changes only its modifies targets (it proves its frame)
		ws["next"] = true
		for _, m := range c.Modifies {
			cf := v.clauseFn(m)
			if cf == nil {
				continue
			}
			t := cf.Signature.Results().At(0).Type()
			regFresh = false
			switch m.ModKind {
			case "elems":
				if sl, ok := under(t).(*types.Slice); ok {
					regE(sl.Elem(), ws)
				}
			case "obj", "global":
				if pt, ok := under(t).(*types.Pointer); ok {
					regH(pt.Elem(), ws, 0, -1)
				}
			case "field":
				if pt, ok := under(t).(*types.Pointer); ok {
					if stt, ok := under(pt.Elem()).(*types.Struct); ok {
						for k := 0; k < stt.NumFields(); k++ {
							if stt.Field(k).Name() == m.ModField {
								lo, hi := fieldLeafRange(stt, k)
								regH(pt.Elem(), ws, lo, hi)
							}
						}
					}
				}
			case "mapof":
				if mt, ok := under(t).(*types.Map); ok {
					regM(mt, ws)
				}
			}
		}
		// ghost components written by the callee's externs
		if !c.Trusted {
			sub := v.writeSetRec(callee, visiting)
			for n := range sub {
				if (strings.HasPrefix(n, "G|") || strings.HasPrefix(n, "!G|")) && !objectKeyedGhost[strings.TrimPrefix(n, "!")] {
					ws[n] = true
				}
			}
		}
		return
	}
	saved, savedFn := curLoopBody, curLoopFn
	curLoopBody, curLoopFn = nil, nil // inside the callee every object it allocates is new relative to the caller
	sub := v.writeSetRec(callee, visiting)
	curLoopBody, curLoopFn = saved, savedFn
	for c := range sub {
		ws[c] = true
	}
}

func (v *Verifier) writeSet(fn *ssa.Function) map[string]bool {
	return v.writeSetRec(fn, map[*ssa.Function]bool{})
}

// writeSetRec: union of the direct writes of every function reachable through calls that are
// executed in place or through contracts (trusted contracts and functions outside the repository
// are not entered: they contribute an allocation effect only)
func (v *Verifier) writeSetRec(fn *ssa.Function, visiting map[*ssa.Function]bool) map[string]bool {
	if ws, ok := v.wsCache[fn]; ok {
		return ws
	}
	top := len(visiting) == 0
	if visiting[fn] {
		return map[string]bool{}
	}
	visiting[fn] = true
	ws := map[string]bool{}
	if c := v.contractFor(fn); (c != nil && c.Trusted) || !v.inRepo(fn) {
		ws["next"] = true
		if top {
			v.wsCache[fn] = ws
		}
		return ws
	}
	cells := map[*ssa.Alloc]bool{}
	for _, b := range fn.Blocks {
		for _, in := range b.Instrs {
			v.addInstrWrites(fn, in, ws, cells, visiting)
		}
	}
	if top {
		// complete only for the root of the traversal (inner results may be cut by cycles)
		v.wsCache[fn] = ws
	}
	return ws
}

func (v *Verifier) inRepo(fn *ssa.Function) bool {
	root := fn
	for root.Parent() != nil {
		root = root.Parent()
	}
	if root.Origin() != nil {
		root = root.Origin()
	}
	return root.Pkg != nil && strings.HasPrefix(root.Pkg.Pkg.Path(), "github.com/free5gc/chf")
}

// sliceWrite: an element store s[i] = v inside a loop where s is loop-invariant
type sliceWrite struct {
	cell *ssa.Alloc // s is the content of this (unmodified) cell
	val  ssa.Value  // or an SSA value defined outside the loop
	elem types.Type
}

func (v *Verifier) loopWriteSet(fn *ssa.Function, li *loopInfo) (map[string]bool, map[*ssa.Alloc]bool) {
	ws := map[string]bool{}
	cells := map[*ssa.Alloc]bool{}
	curLoopBody, curLoopFn = li.body, fn
	for b := range li.body {
		for _, in := range b.Instrs {
			v.addInstrWrites(fn, in, ws, cells, map[*ssa.Function]bool{fn: true})
		}
	}
	curLoopBody, curLoopFn = nil, nil
	// recursion through the enclosing function itself
	for b := range li.body {
		for _, in := range b.Instrs {
			if c, ok := in.(*ssa.Call); ok {
				if callee := c.Common().StaticCallee(); callee == fn {
					for w := range v.writeSet(fn) {
						ws[w] = true
					}
				}
			}
		}
	}
	return ws, cells
}

// ---------------------------------------------------------------- loop cutting

type loopRec struct {
	measure *Term
	ws      map[string]bool
	head    []*State   // per preserved clause: state at the cut point (after havoc) with the closure cells
	pres    [][2]Value // guard and expression closures of the preserved clauses, bound at the cut point
}

// applySpec evaluates a specification closure on one integer argument in the given state
func (ex *Exec) applySpec(fr *Frame, st *State, f Value, arg *Term) Value {
	cl, ok := f.(VFunc)
	if !ok {
		panic(unsupported("preserved needs function literals"))
	}
	sf := &Frame{fn: fr.fn, vals: fr.vals, depth: fr.depth, spec: true}
	return ex.inline(sf, st, True, cl.Fn, []Value{VBV{arg}}, cl.Binds, true, token.NoPos)
}

func (ex *Exec) contractOfFrame(fr *Frame) *Contract {
	if fr.top {
		return ex.curContract
	}
	return ex.V.contractFor(fr.fn)
}

func (ex *Exec) cutLoop(fr *Frame, li *loopInfo, pc *Term, st *State, nloops int) (*Term, *State) {
	c := ex.contractOfFrame(fr)
	var invs []*Clause
	var decr *Clause
	if c != nil {
		if c.NLoops != nloops && !fr.spec {
			ex.oblige(fr, "shape", fmt.Sprintf("contract of %s expects %d loops, code has %d", c.Func, c.NLoops, nloops), li.header.Instrs[0].Pos(), pc, False, c.Props)
		} else {
			invs = c.Invs[li.ord]
			decr = c.Decr[li.ord]
		}
	}
	pos := li.header.Instrs[0].Pos()
	for _, b := range sortedBlocks(li.body) {
		for _, in := range b.Instrs {
			if p := in.Pos(); p.IsValid() && !pos.IsValid() {
				pos = p
			}
		}
	}
	for _, inv := range invs {
		t := ex.evalClause(fr, st, pc, inv, nil)
		ex.oblige(fr, "inv-init", fmt.Sprintf("loop %d: %s", li.ord, inv.Text), pos, pc, t, inv.Props)
	}
	ws, cells := ex.V.loopWriteSet(fr.fn, li)
	sliceW, badE := ex.V.loopSliceWrites(fr.fn, li, cells)
	// havoc
	for a := range cells {
		if old, ok := st.cells[a]; ok {
			t := under(a.Type()).(*types.Pointer).Elem()
			nv := freshValue(t, "loop$"+a.Comment)
			ex.assumeWF(st, pc, nv)
			_ = old
			st.cells[a] = nv
		}
	}
	var names []string
	for n := range ws {
		names = append(names, n)
	}
	sort.Strings(names)
	// frame as an implicit loop invariant: objects that existed when the verified function was entered
	// and are not modifies targets keep their entry value (checked here and at every back edge)
	frameComps := ex.loopFrameComps(fr, ws)
	for _, n := range frameComps {
		tf := ex.topFrame
		g := ex.frameGoal(tf.modTargetsCache, n, st.comp(n, compSorts[n]), tf.entry.comp(n, compSorts[n]), tf.entry.next)
		ex.oblige(fr, "frame-init", fmt.Sprintf("loop %d: %s", li.ord, n), pos, pc, g, ex.curContract.Props)
	}
	defer func() {
		for _, n := range frameComps {
			tf := ex.topFrame
			ex.assume(pc, ex.frameGoal(tf.modTargetsCache, n, st.comp(n, compSorts[n]), tf.entry.comp(n, compSorts[n]), tf.entry.next))
		}
	}()
	for _, n := range names {
		if strings.HasPrefix(n, "!") {
			continue
		}
		if n != "next" && !ws["!"+n] {
			continue // only freshly allocated objects of this component are written in the loop
		}
		if n == "next" {
			old := st.next
			st.next = Fresh("next", BV64)
			nextSyms[st.next] = true
			if b, k, ok := splitAddConst(old); ok && nextSyms[b] {
				nextGE[st.next] = idBound{b, k}
			}
			ex.assume(pc, And(ULe(old, st.next), ULt(st.next, C64(1<<56))))
			continue
		}
		srt := compSorts[n]
		if srt == nil {
			panic("internal: no sort registered for component " + n)
		}
		cur := st.comp(n, srt)
		if objectKeyedGhost[n] {
			if ptrs, ok := ex.loopBufferTargets(fr, st, li, cells); ok {
				// only the buffers written by binary.Write in this loop change
				for k, p := range ptrs {
					cur = Store(cur, p, Fresh(fmt.Sprintf("loopbuf%d$%s", k, n), srt.Elem))
				}
				st.setComp(n, cur)
				continue
			}
		}
		if sws, ok := sliceW[n]; ok && !badE[n] {
			// row-level havoc: only the windows of the loop-invariant slices may change
			for k, sw := range sws {
				var sv Value
				if sw.cell != nil {
					sv = st.cells[sw.cell]
				} else {
					sv = fr.vals[sw.val]
				}
				sl, ok := sv.(VSlice)
				if !ok {
					cur = Fresh("loop$"+n, srt)
					break
				}
				oldRow := Select(cur, sl.Arr)
				row := Fresh(fmt.Sprintf("looprow%d$%s", k, n), srt.Elem)
				j := Bound("j", BV64)
				ex.assume(pc, Forall([]*Term{j}, Implies(Or(SLt(j, sl.Off), SLe(Add(sl.Off, sl.Len), j)),
					Eq(Select(row, j), Select(oldRow, j))), []*Term{Select(row, j)}))
				cur = Store(cur, sl.Arr, row)
			}
			st.setComp(n, cur)
			continue
		}
		nw := Fresh("loop$"+n, srt)
		st.setComp(n, nw)
		if !ws["!!"+n] && fr.entryNext != nil && !strings.HasPrefix(n, "G|") {
			// every write to a pre-existing object of this component goes through an object this
			// function allocated itself: objects that existed when the function was entered are untouched
			a := Bound("a", srt.Idx)
			ex.assume(pc, Forall([]*Term{a}, Implies(ULt(a, fr.entryNext), Eq(Select(nw, a), Select(cur, a))), []*Term{Select(nw, a)}))
		}
		if okLin, addrs := ex.localLinearAppends(fr, li, n); strings.HasPrefix(n, "E|") && okLin {
			// the arrays of these slices were all allocated by this function (they start as nil and only
			// ever receive the results of appends to themselves)
			for _, ad := range addrs {
				if sl, ok := linearSliceValue(st, ad); ok {
					ex.assume(pc, Or(Eq(sl.Arr, C64(0)), ULe(fr.entryNext, sl.Arr)))
				}
			}
		}
		if strings.HasPrefix(n, "E|") && ex.onlyLocalLinearAppends(fr, li, n) {
			// the only writers are appends to local linear slices, whose arrays were all allocated by
			// this function: arrays that existed when the function was entered are untouched
			a := Bound("a", BV64)
			ex.assume(pc, Forall([]*Term{a}, Implies(ULt(a, fr.entryNext), Eq(Select(nw, a), Select(cur, a))), []*Term{Select(nw, a)}))
		}
	}
	// heap invariant at the cut point: every identifier stored in the components the loop
	// touches denotes an object that exists now (no dangling pointers)
	touched := map[string]bool{}
	for n := range ws {
		if n != "next" && n[0] != '!' {
			touched[n] = true
		}
	}
	var bl []*ssa.BasicBlock
	for b := range li.body {
		bl = append(bl, b)
	}
	for n := range ex.V.blockReads(bl) {
		touched[n] = true
	}
	var tn []string
	for n := range touched {
		if compPtr[n] && compSorts[n] != nil {
			tn = append(tn, n)
		}
		if compSize[n] && compSorts[n] != nil {
			// slice offsets, lengths and capacities stored in the heap are sizes
			srt := compSorts[n]
			c := st.comp(n, srt)
			i := Bound("i", srt.Idx)
			b := C64(int64(SizeBound))
			if srt.Elem.IsArray() {
				j := Bound("j", srt.Elem.Idx)
				sel := Select(Select(c, i), j)
				if sel.Sort == BV64 {
					ex.assume(pc, Forall([]*Term{i, j}, And(SLe(C64(0), sel), SLe(sel, b)), []*Term{sel}))
				}
			} else if srt.Elem == BV64 {
				sel := Select(c, i)
				ex.assume(pc, Forall([]*Term{i}, And(SLe(C64(0), sel), SLe(sel, b)), []*Term{sel}))
			}
		}
	}
	sort.Strings(tn)
	for _, n := range tn {
		srt := compSorts[n]
		c := st.comp(n, srt)
		i := Bound("i", srt.Idx)
		if srt.Elem.IsArray() {
			j := Bound("j", srt.Elem.Idx)
			sel := Select(Select(c, i), j)
			if sel.Sort == BV64 {
				ex.assume(pc, Forall([]*Term{i, j}, ULt(sel, st.next), []*Term{sel}))
			}
		} else if srt.Elem == BV64 {
			sel := Select(c, i)
			ex.assume(pc, Forall([]*Term{i}, ULt(sel, st.next), []*Term{sel}))
		}
	}
	if fr.loopRecs == nil {
		fr.loopRecs = map[*loopInfo]*loopRec{}
	}
	rec := &loopRec{ws: ws}
	fr.loopRecs[li] = rec
	for _, inv := range invs {
		t := ex.evalClause(fr, st, pc, inv, nil)
		ex.assume(pc, t)
	}
	if decr != nil {
		rec.measure = ex.evalClause(fr, st, pc, decr, nil)
	}
	if c != nil && len(c.Preserved[li.ord]) > 0 && c.NLoops == nloops {
		for _, p := range c.Preserved[li.ord] {
			ex.evalClause(fr, st, pc, p, nil)
			rec.pres = append(rec.pres, ex.lastPreserved)
			rec.head = append(rec.head, ex.lastPreservedSt)
		}
	}
	return pc, st
}

func sortedBlocks(m map[*ssa.BasicBlock]bool) []*ssa.BasicBlock {
	var out []*ssa.BasicBlock
	for b := range m {
		out = append(out, b)
	}
	sort.Slice(out, func(i, j int) bool { return out[i].Index < out[j].Index })
	return out
}

func (ex *Exec) loopBackEdge(fr *Frame, li *loopInfo, pc *Term, st *State) {
	c := ex.contractOfFrame(fr)
	if c == nil {
		return
	}
	pos := li.header.Instrs[0].Pos()
	if rec := fr.loopRecs[li]; rec != nil {
		for _, n := range ex.loopFrameComps(fr, rec.ws) {
			tf := ex.topFrame
			g := ex.frameGoal(tf.modTargetsCache, n, st.comp(n, compSorts[n]), tf.entry.comp(n, compSorts[n]), tf.entry.next)
			ex.oblige(fr, "frame-step", fmt.Sprintf("loop %d: %s", li.ord, n), pos, pc, g, c.Props)
		}
	}
	if rec := fr.loopRecs[li]; rec != nil && rec.head != nil {
		// preserved n :: g(n) :: e(n): e has the same value at the cut point and at the back edge for every
		// n with g(n) (g evaluated at the cut point); proved by induction on n, then assumed for all n
		for k, p := range c.Preserved[li.ord] {
			ex.evalClause(fr, st, pc, p, nil)
			now, nowSt := ex.lastPreserved, ex.lastPreservedSt
			q := func(x *Term) *Term {
				g := ex.applySpec(fr, rec.head[k], rec.pres[k][0], x).(VBool).T
				a, b := toLeaves(ex.applySpec(fr, rec.head[k], rec.pres[k][1], x)), toLeaves(ex.applySpec(fr, nowSt, now[1], x))
				var eqs []*Term
				for i := range a {
					eqs = append(eqs, Eq(a[i], b[i]))
				}
				return Implies(g, And(eqs...))
			}
			n := Fresh("ind$n", BV64)
			label := fmt.Sprintf("loop %d: preserved %s", li.ord, p.Text)
			ex.oblige(fr, "preserved-base", label, pos, pc, Implies(SLe(n, C64(0)), q(n)), p.Props)
			ex.oblige(fr, "preserved-step", label, pos, pc, Implies(And(SLt(C64(0), n), q(Sub(n, C64(1)))), q(n)), p.Props)
			m := Bound("m", BV64)
			ex.assume(pc, Forall([]*Term{m}, q(m)))
		}
	}
	for _, inv := range c.Invs[li.ord] {
		t := ex.evalClause(fr, st, pc, inv, nil)
		ex.oblige(fr, "inv-step", fmt.Sprintf("loop %d: %s", li.ord, inv.Text), pos, pc, t, inv.Props)
	}
	if d := c.Decr[li.ord]; d != nil {
		rec := fr.loopRecs[li]
		now := ex.evalClause(fr, st, pc, d, nil)
		ex.oblige(fr, "term", fmt.Sprintf("loop %d: decreases %s", li.ord, d.Text), pos, pc,
			And(SLe(C64(0), rec.measure), SLt(now, rec.measure)), d.Props)
	}
}

// componentAllowed: fail-safe check that writes inside a loop body were havocked at its header
func (ex *Exec) checkLoopWrite(name string) {
	for _, fr := range ex.frames {
		if fr.spec {
			return
		}
	}
	for _, fr := range ex.frames {
		if fr.curBlock == nil {
			continue
		}
		for li, rec := range fr.loopRecs {
			if li.body[fr.curBlock] && !rec.ws[name] {
				panic(fmt.Sprintf("internal: component %s written in loop %d of %s but absent from its havoc set", name, li.ord, fr.fn))
			}
		}
	}
}

func compKind(name string) string {
	if i := strings.Index(name, "|"); i > 0 {
		return name[:i]
	}
	return name
}

// loopSliceWrites: if every write to E-components in the loop is an element store through a
// loop-invariant slice, return those slices (rows can then be havocked individually, frame preserved).
func (v *Verifier) loopSliceWrites(fn *ssa.Function, li *loopInfo, cells map[*ssa.Alloc]bool) (map[string][]sliceWrite, map[string]bool) {
	out := map[string][]sliceWrite{}
	bad := map[string]bool{}
	markBad := func(ws map[string]bool) {
		for n := range ws {
			if strings.HasPrefix(n, "E|") {
				bad[n] = true
			}
		}
	}
	for b := range li.body {
		for _, in := range b.Instrs {
			tmp := map[string]bool{}
			tc := map[*ssa.Alloc]bool{}
			if st, ok := in.(*ssa.Store); ok {
				// element store?
				var ia *ssa.IndexAddr
				cur := st.Addr
				for {
					if fa, ok := cur.(*ssa.FieldAddr); ok {
						cur = fa.X
						continue
					}
					break
				}
				ia, _ = cur.(*ssa.IndexAddr)
				if ia != nil {
					if sl, ok := under(ia.X.Type()).(*types.Slice); ok {
						sw := sliceWrite{elem: sl.Elem()}
						okSrc := false
						if ld, ok := ia.X.(*ssa.UnOp); ok {
							if a, ok := ld.X.(*ssa.Alloc); ok && !a.Heap && !cells[a] {
								sw.cell = a
								okSrc = true
							}
						}
						if !okSrc {
							if iv, ok := ia.X.(ssa.Instruction); ok && !li.body[iv.Block()] {
								sw.val = ia.X
								okSrc = true
							} else if _, isParam := ia.X.(*ssa.Parameter); isParam {
								sw.val = ia.X
								okSrc = true
							}
						}
						for i := range leafSorts(sl.Elem()) {
							n := eCompName(sl.Elem(), i)
							if okSrc {
								out[n] = append(out[n], sw)
							} else {
								bad[n] = true
							}
						}
						continue
					}
				}
			}
			v.addInstrWrites(fn, in, tmp, tc, map[*ssa.Function]bool{fn: true})
			markBad(tmp)
		}
	}
	return out, bad
}

// onlyLocalLinearAppends: in this loop, component n (an E component) is written only by linear
// appends to local (non-parameter) slice variables
func (ex *Exec) onlyLocalLinearAppends(fr *Frame, li *loopInfo, n string) bool {
	ok, _ := ex.localLinearAppends(fr, li, n)
	return ok
}

// linearSliceValue: current value of a local linear slice given the address it is loaded from
// (a local variable, or a field path inside a local struct variable held in a cell)
func linearSliceValue(st *State, addr ssa.Value) (VSlice, bool) {
	var path []int
	cur := addr
	for {
		switch a := cur.(type) {
		case *ssa.FieldAddr:
			path = append([]int{a.Field}, path...)
			cur = a.X
			continue
		case *ssa.Alloc:
			v, ok := st.cells[a]
			if !ok {
				return VSlice{}, false
			}
			for _, f := range path {
				sv, isS := v.(VStruct)
				if !isS || f >= len(sv.F) {
					return VSlice{}, false
				}
				v = sv.F[f]
			}
			sl, isSl := v.(VSlice)
			return sl, isSl
		}
		return VSlice{}, false
	}
}

func (ex *Exec) localLinearAppends(fr *Frame, li *loopInfo, n string) (bool, []ssa.Value) {
	if fr.entryNext == nil {
		return false, nil
	}
	var addrs []ssa.Value
	found := false
	for b := range li.body {
		for _, in := range b.Instrs {
			tmp := map[string]bool{}
			tc := map[*ssa.Alloc]bool{}
			curLoopBody = li.body
			ex.V.addInstrWrites(fr.fn, in, tmp, tc, map[*ssa.Function]bool{fr.fn: true})
			curLoopBody = nil
			if !tmp["!"+n] {
				continue
			}
			call, ok := in.(*ssa.Call)
			if !ok {
				return false, nil
			}
			bi, ok := call.Call.Value.(*ssa.Builtin)
			if !ok || bi.Name() != "append" || !ex.linearAppend(fr, call) {
				return false, nil
			}
			ld, _ := call.Call.Args[0].(*ssa.UnOp)
			al, isAlloc := ld.X.(*ssa.Alloc)
			if !isAlloc {
				// a field of a local struct variable that is never assigned as a whole (starts as the zero value)
				ra, ok := rootAlloc(ld.X)
				if !ok || ra.Parent() != fr.fn {
					return false, nil
				}
				if refs := ra.Referrers(); refs != nil {
					for _, r := range *refs {
						if st, isStore := r.(*ssa.Store); isStore && st.Addr == ssa.Value(ra) {
							return false, nil
						}
					}
				}
				al = ra
			}
			for i := range fr.fn.Params {
				if isParamSpill(al, fr.fn, i) {
					return false, nil
				}
			}
			found = true
			addrs = append(addrs, ld.X)
		}
	}
	return found, addrs
}

// loopBufferTargets: the buffers (pointer terms) written by binary.Write calls inside the loop, when every
// such call writes to a buffer held in a variable the loop does not assign
func (ex *Exec) loopBufferTargets(fr *Frame, st *State, li *loopInfo, cells map[*ssa.Alloc]bool) ([]*Term, bool) {
	var out []*Term
	seen := map[*Term]bool{}
	for b := range li.body {
		for _, in := range b.Instrs {
			c, ok := in.(*ssa.Call)
			if !ok {
				continue
			}
			callee := c.Call.StaticCallee()
			if callee == nil {
				continue
			}
			key := fnKey(callee)
			w, isExt := externWrites[key]
			touches := false
			for _, n := range w {
				if objectKeyedGhost[n] {
					touches = true
				}
			}
			if !isExt || !touches {
				continue
			}
			if key != "encoding/binary.Write" {
				return nil, false
			}
			mi, ok := c.Call.Args[0].(*ssa.MakeInterface)
			if !ok {
				return nil, false
			}
			ld, ok := mi.X.(*ssa.UnOp)
			if !ok {
				return nil, false
			}
			al, ok := ld.X.(*ssa.Alloc)
			if !ok || al.Heap || cells[al] {
				return nil, false
			}
			v, ok := st.cells[al].(VPtr)
			if !ok || v.T == nil {
				return nil, false
			}
			if !seen[v.T] {
				seen[v.T] = true
				out = append(out, v.T)
			}
		}
	}
	return out, true
}

// loopFrameComps: the components for which the frame is carried through a loop cut as an implicit
// invariant: those the loop havocs, when the verified function has a frame obligation
func (ex *Exec) loopFrameComps(fr *Frame, ws map[string]bool) []string {
	tf := ex.topFrame
	c := ex.curContract
	if tf == nil || c == nil || fr.spec || c.Lemma || len(c.Props) == 0 || !ex.V.needsFrame(c) || tf.entry == nil {
		return nil
	}
	if !tf.modTargetsDone {
		tf.modTargetsDone = true
		tf.modTargetsCache = ex.modTargets(tf, tf.entry, True, c, tf.params)
	}
	var out []string
	for n := range ws {
		if n == "next" || n[0] == '!' || !ws["!"+n] || compSorts[n] == nil {
			continue
		}
		if strings.HasPrefix(n, "B|") || (strings.HasPrefix(n, "G|") && !objectKeyedGhost[n]) {
			continue
		}
		out = append(out, n)
	}
	sort.Strings(out)
	return out
}
