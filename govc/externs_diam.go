package main

// Assumed contracts: go-diameter messages, the mongoapi document store (ghost account tables),
// strconv / strings numeric-string functions.
//
// Ghost state lives in ordinary Go package variables declared in the package's *_verif.go file;
// the handlers below update them when they exist:
//   ghostUnmarshalled any                        last destination handed to (*diam.Message).Unmarshal
//   ghostMarshalled any                          last value handed to (*diam.Message).Marshal
//   ghostWrites     int                          number of (*diam.Message).WriteTo calls
//   ghostQuota      map[struct{Ue string; Rg uint32}]string  account database: quota string per (ueId, ratingGroup)
//   ghostUnitCost   map[struct{Ue string; Rg uint32}]string  account database: unitCost string per (ueId, ratingGroup)

import (
	"go/token"
	"go/types"

	"golang.org/x/tools/go/ssa"
)

func (ex *Exec) ghostVar(fr *Frame, name string) (*ssa.Global, bool) {
	fn := ex.curFn
	for fn.Parent() != nil {
		fn = fn.Parent()
	}
	if fn.Pkg == nil {
		return nil, false
	}
	g, ok := fn.Pkg.Members[name].(*ssa.Global)
	return g, ok
}

func (ex *Exec) ghostLoad(st *State, pc *Term, g *ssa.Global) Value {
	t := under(g.Type()).(*types.Pointer).Elem()
	return ex.loadObj(st, pc, t, ex.V.globalID(g))
}

func (ex *Exec) ghostStore(st *State, g *ssa.Global, v Value) {
	t := under(g.Type()).(*types.Pointer).Elem()
	ex.storeObj(st, t, ex.V.globalID(g), v)
}

func ghostComps(v *Verifier, fn *ssa.Function, names ...string) []string {
	var out []string
	for fn.Parent() != nil {
		fn = fn.Parent()
	}
	if fn.Pkg == nil {
		return nil
	}
	for _, n := range names {
		if g, ok := fn.Pkg.Members[n].(*ssa.Global); ok {
			t := under(g.Type()).(*types.Pointer).Elem()
			ws := map[string]bool{}
			regH(t, ws, 0, -1)
			for c := range ws {
				out = append(out, c)
			}
			if mt, ok := under(t).(*types.Map); ok {
				ws2 := map[string]bool{}
				regM(mt, ws2)
				if inner, ok := under(mt.Elem()).(*types.Map); ok {
					regM(inner, ws2)
				}
				for c := range ws2 {
					out = append(out, c)
				}
			}
		}
	}
	return out
}

var stringT = types.Typ[types.String]

// boxString: interface value holding a string
func (ex *Exec) boxString(st *State, pc *Term, s *Term) VIface {
	return ex.makeIface(st, pc, VStr{s}, stringT).(VIface)
}

func numericStringExterns() {
	atoi := func(ex *Exec, fr *Frame, st *State, pc *Term, fn *ssa.Function, args []Value, pos token.Pos) (Value, *Term) {
		s := args[0].(VStr).T
		ok := App("atoi.ok", BoolSort, s)
		val := App("atoi.val", BV64, s)
		errTag := Ite(ok, C64(0), Const(typeTag(types.Universe.Lookup("error").Type())+1001, 64))
		return VTuple{[]Value{VBV{val}, VIface{errTag, Ite(ok, C64(0), Fresh("err$atoi", BV64))}}}, pc
	}
	regExtern("strconv.Atoi", "Atoi(s): (atoi.val(s), nil) when atoi.ok(s), else an error; atoi.val(itoa(x)) == x", atoi)
	regExtern("strconv.ParseInt", "ParseInt(s, 10, 64): as Atoi; ParseInt(s, 10, n<64): as Atoi and the value fits n bits; any other base is a different uninterpreted function",
		func(ex *Exec, fr *Frame, st *State, pc *Term, fn *ssa.Function, args []Value, pos token.Pos) (Value, *Term) {
			base, bits := args[1].(VBV).T, args[2].(VBV).T
			if base.IsConst() && base.Val == 10 && bits.IsConst() && bits.Val == 64 {
				return atoi(ex, fr, st, pc, fn, args, pos)
			}
			if base.IsConst() && base.Val == 10 && bits.IsConst() && bits.Val >= 1 && bits.Val < 64 {
				// a decimal string accepted by Atoi whose value fits the requested width
				s := args[0].(VStr).T
				v := App("atoi.val", BV64, s)
				lim := int64(1) << (uint(bits.Val) - 1)
				ok := And(App("atoi.ok", BoolSort, s), SLe(C64(-lim), v), SLt(v, C64(lim)))
				errTag := Ite(ok, C64(0), Const(typeTag(types.Universe.Lookup("error").Type())+1001, 64))
				return VTuple{[]Value{VBV{Ite(ok, v, Fresh("parseint.clamped", BV64))}, VIface{errTag, Ite(ok, C64(0), Fresh("err$parseint", BV64))}}}, pc
			}
			s := args[0].(VStr).T
			ok := App("parseint.ok", BoolSort, s, base, bits)
			val := App("parseint.val", BV64, s, base, bits)
			errTag := Ite(ok, C64(0), Const(typeTag(types.Universe.Lookup("error").Type())+1001, 64))
			return VTuple{[]Value{VBV{val}, VIface{errTag, Ite(ok, C64(0), Fresh("err$parseint", BV64))}}}, pc
		})
	itoa := func(ex *Exec, fr *Frame, st *State, pc *Term, fn *ssa.Function, args []Value, pos token.Pos) (Value, *Term) {
		x := args[0].(VBV).T
		return VStr{App("itoa", StrSort, x)}, pc
	}
	regExtern("strconv.Itoa", "Itoa(x): decimal string; injective; Atoi(Itoa(x)) == x", itoa)
	regExtern("strconv.FormatInt", "FormatInt(x, 10): as Itoa; other bases: a different uninterpreted function",
		func(ex *Exec, fr *Frame, st *State, pc *Term, fn *ssa.Function, args []Value, pos token.Pos) (Value, *Term) {
			if b := args[1].(VBV).T; b.IsConst() && b.Val == 10 {
				return itoa(ex, fr, st, pc, fn, args, pos)
			}
			return VStr{App("formatint", StrSort, args[0].(VBV).T, args[1].(VBV).T)}, pc
		})
	regExtern("strings.Index", "Index(s, sub): -1 or a position with room for sub", func(ex *Exec, fr *Frame, st *State, pc *Term, fn *ssa.Function, args []Value, pos token.Pos) (Value, *Term) {
		s, sub := args[0].(VStr).T, args[1].(VStr).T
		i := App("gostr.index", BV64, s, sub)
		ex.assume(pc, And(SLe(C64(-1), i), SLe(i, Sub(StrLen(s), StrLen(sub)))))
		return VBV{i}, pc
	})
	regExtern("strings.Replace", "Replace: uninterpreted function of its arguments", func(ex *Exec, fr *Frame, st *State, pc *Term, fn *ssa.Function, args []Value, pos token.Pos) (Value, *Term) {
		return VStr{App("gostr.replace", StrSort, args[0].(VStr).T, args[1].(VStr).T, args[2].(VStr).T, args[3].(VBV).T)}, pc
	})
	regExtern("math.Pow10", "math.Pow10(e): uninterpreted function of e, except that for 0 <= e <= 9 its conversion to an integer type of at least 32 bits is exactly 10^e (10^e is exactly representable); for 0 <= e <= 19 its conversion to int64 is non-zero", func(ex *Exec, fr *Frame, st *State, pc *Term, fn *ssa.Function, args []Value, pos token.Pos) (Value, *Term) {
		e := args[0].(VBV).T
		p := App("pow10", BV64, e)
		// 10^e for 0 <= e <= 19 converts to a non-zero int64 (on amd64 the overflowing 10^19 becomes MinInt64)
		ex.assume(pc, Implies(And(SLe(C64(0), e), SLe(e, C64(19))), Not(Eq(App("float2int64", BV64, p), C64(0)))))
		return VOpaque{p}, pc
	})
}

func init() {
	numericStringExterns()

	regExtern("(*github.com/fiorix/go-diameter/diam.Message).Unmarshal", "Message.Unmarshal(dst): *dst becomes an arbitrary well-typed value (any AVP may be absent: pointer members may be nil); any error result",
		func(ex *Exec, fr *Frame, st *State, pc *Term, fn *ssa.Function, args []Value, pos token.Pos) (Value, *Term) {
			d := args[1].(VIface)
			if !d.Tag.IsConst() {
				panic(unsupported("Unmarshal into a statically unknown type"))
			}
			pt, ok := under(tagTypes[d.Tag.Val]).(*types.Pointer)
			if !ok {
				panic(unsupported("Unmarshal into a non-pointer"))
			}
			ex.avpObligations(fr, pc, pos, pt.Elem(), "Unmarshal")
			v := freshValue(pt.Elem(), "unmarshal")
			ex.assumeWF(st, pc, v)
			ex.storeObj(st, pt.Elem(), d.Pay, v)
			if g, ok := ex.ghostVar(fr, "ghostUnmarshalled"); ok {
				ex.ghostStore(st, g, d)
			}
			errv := VIface{Fresh("unmarshal.err", BV64), Fresh("unmarshal.errp", BV64)}
			if g, ok := ex.ghostVar(fr, "ghostUnmarshalErr"); ok {
				ex.ghostStore(st, g, errv)
			}
			return errv, pc
		})
	regExtern("(*github.com/fiorix/go-diameter/diam.Message).Answer", "Message.Answer(code): a new message", func(ex *Exec, fr *Frame, st *State, pc *Term, fn *ssa.Function, args []Value, pos token.Pos) (Value, *Term) {
		p := ex.alloc(st, pc)
		return VPtr{T: p}, pc
	})
	externWrites["(*github.com/fiorix/go-diameter/diam.Message).Answer"] = []string{"next"}
	regExtern("(*github.com/fiorix/go-diameter/diam.Message).Marshal", "Message.Marshal(src): records src in ghostMarshalled; any error result",
		func(ex *Exec, fr *Frame, st *State, pc *Term, fn *ssa.Function, args []Value, pos token.Pos) (Value, *Term) {
			if d, ok := args[1].(VIface); ok && d.Tag.IsConst() && tagTypes[d.Tag.Val] != nil {
				ex.avpObligations(fr, pc, pos, tagTypes[d.Tag.Val], "Marshal")
			}
			if g, ok := ex.ghostVar(fr, "ghostMarshalled"); ok {
				ex.ghostStore(st, g, args[1])
			}
			return VIface{Fresh("marshal.err", BV64), Fresh("marshal.errp", BV64)}, pc
		})
	regExtern("(*github.com/fiorix/go-diameter/diam.Message).WriteTo", "Message.WriteTo(conn): ghostWrites++ ; any result",
		func(ex *Exec, fr *Frame, st *State, pc *Term, fn *ssa.Function, args []Value, pos token.Pos) (Value, *Term) {
			if g, ok := ex.ghostVar(fr, "ghostWrites"); ok {
				cur := ex.ghostLoad(st, pc, g).(VBV).T
				ex.ghostStore(st, g, VBV{Add(cur, C64(1))})
			}
			return VTuple{[]Value{VBV{Fresh("writeto.n", BV64)}, VIface{Fresh("writeto.err", BV64), Fresh("writeto.errp", BV64)}}}, pc
		})
	regExtern("github.com/fiorix/go-diameter/diam.Conn.RemoteAddr", "Conn.RemoteAddr(): opaque", func(ex *Exec, fr *Frame, st *State, pc *Term, fn *ssa.Function, args []Value, pos token.Pos) (Value, *Term) {
		return VIface{Fresh("addr.tag", BV64), Fresh("addr.pay", BV64)}, pc
	})

	// ---- document store ---------------------------------------------------------------
	type dbKey struct {
		ue, rg *Term
	}
	filterKey := func(ex *Exec, st *State, pc *Term, filter Value, ft types.Type) dbKey {
		mt := under(ft).(*types.Map)
		m := filter.(VMap)
		uv, _ := ex.mapGet(st, pc, mt, m.T, []*Term{StrLit("ueId")})
		rv, _ := ex.mapGet(st, pc, mt, m.T, []*Term{StrLit("ratingGroup")})
		ui := uv.(VIface)
		ue := ex.unbox(st, pc, ui.Pay, stringT).(VStr).T
		return dbKey{ue, Extract(31, 0, rv.(VIface).Pay)}
	}
	// ghost tables: map[struct{Ue string; Rg uint32}]string
	ghostLookup := func(ex *Exec, st *State, pc *Term, g *ssa.Global, k dbKey) (*Term, *Term, *Term) {
		mt := under(under(g.Type()).(*types.Pointer).Elem()).(*types.Map)
		om := ex.ghostLoad(st, pc, g).(VMap)
		v, p := ex.mapGet(st, pc, mt, om.T, []*Term{k.ue, k.rg})
		return v.(VStr).T, p, om.T
	}
	regExtern("github.com/free5gc/util/mongoapi.RestfulAPIGetOne", "RestfulAPIGetOne(coll, {ueId, ratingGroup}): the document of the ghost account tables (fields quota / unitCost, both strings) or nil when the account is unknown; the database is reachable (nil error)",
		func(ex *Exec, fr *Frame, st *State, pc *Term, fn *ssa.Function, args []Value, pos token.Pos) (Value, *Term) {
			k := filterKey(ex, st, pc, args[1], fn.Signature.Params().At(1).Type())
			docT := under(fn.Signature.Results().At(0).Type()).(*types.Map)
			p := ex.alloc(st, pc)
			ex.mapInit(st, docT, p)
			present := True
			found := false
			for _, fld := range []struct{ ghost, key string }{{"ghostQuota", "quota"}, {"ghostUnitCost", "unitCost"}} {
				if g, ok := ex.ghostVar(fr, fld.ghost); ok {
					s, pr, _ := ghostLookup(ex, st, pc, g, k)
					if !found {
						present = pr
						found = true
					}
					ex.mapSet(st, docT, p, []*Term{StrLit(fld.key)}, ex.boxString(st, pc, s))
				}
			}
			if !found {
				present = Fresh("db.present", BoolSort)
			}
			return VTuple{[]Value{VMap{Ite(present, p, C64(0))}, VIface{C64(0), C64(0)}}}, pc
		})
	regExtern("github.com/free5gc/util/mongoapi.RestfulAPIPutOne", "RestfulAPIPutOne(coll, {ueId, ratingGroup}, {quota: s}): the ghost account table at that key becomes s (the account must exist: obligation); nil error",
		func(ex *Exec, fr *Frame, st *State, pc *Term, fn *ssa.Function, args []Value, pos token.Pos) (Value, *Term) {
			k := filterKey(ex, st, pc, args[1], fn.Signature.Params().At(1).Type())
			dt := under(fn.Signature.Params().At(2).Type()).(*types.Map)
			for _, fld := range []struct{ ghost, key string }{{"ghostQuota", "quota"}, {"ghostUnitCost", "unitCost"}} {
				g, ok := ex.ghostVar(fr, fld.ghost)
				if !ok {
					continue
				}
				nv, has := ex.mapGet(st, pc, dt, args[2].(VMap).T, []*Term{StrLit(fld.key)})
				old, pr, om := ghostLookup(ex, st, pc, g, k)
				ex.oblige(fr, "db", "RestfulAPIPutOne writes "+fld.key+" of an account that is not in the table (unknown subscriber or rating group)", pos, And(pc, has), pr, ex.safetyProps)
				s := ex.unbox(st, pc, nv.(VIface).Pay, stringT).(VStr).T
				mt := under(under(g.Type()).(*types.Pointer).Elem()).(*types.Map)
				ex.mapSet(st, mt, om, []*Term{k.ue, k.rg}, VStr{Ite(has, s, old)})
			}
			return VTuple{[]Value{VBool{Fresh("putone.existed", BoolSort)}, VIface{C64(0), C64(0)}}}, pc
		})
	regExtern("github.com/free5gc/util/mongoapi.SetMongoDB", "SetMongoDB: any error result", pureOpaque)
}

// ---- Diameter client side: connections (C18) ------------------------------------------------
//   ghostLiveConns int   number of Diameter connections opened by DialNetworkTLS and not yet closed

func init() {
	bump := func(ex *Exec, fr *Frame, st *State, pc *Term, cond *Term, delta int64) {
		if g, ok := ex.ghostVar(fr, "ghostLiveConns"); ok {
			cur := ex.ghostLoad(st, pc, g).(VBV).T
			ex.ghostStore(st, g, VBV{Ite(cond, Add(cur, C64(delta)), cur)})
		}
	}
	regExtern("(*github.com/fiorix/go-diameter/diam/sm.Client).DialNetworkTLS", "Client.DialNetworkTLS: either an error, or a new connection (with its reader and watchdog tasks): ghostLiveConns++",
		func(ex *Exec, fr *Frame, st *State, pc *Term, fn *ssa.Function, args []Value, pos token.Pos) (Value, *Term) {
			ex.safety(fr, "nil", pos, pc, Not(Eq(args[0].(VPtr).T, C64(0))))
			ok := Fresh("dial.ok", BoolSort)
			p := ex.alloc(st, pc)
			bump(ex, fr, st, pc, ok, 1)
			connTag := Const(typeTag(types.NewPointer(types.Typ[types.Int]))+7000, 64) // some concrete connection type
			conn := VIface{Ite(ok, connTag, C64(0)), Ite(ok, p, C64(0))}
			errTag := Ite(ok, C64(0), Const(typeTag(types.Universe.Lookup("error").Type())+1002, 64))
			return VTuple{[]Value{conn, VIface{errTag, Ite(ok, C64(0), Fresh("dial.err", BV64))}}}, pc
		})
	externWrites["(*github.com/fiorix/go-diameter/diam/sm.Client).DialNetworkTLS"] = []string{"next"}
	regExtern("github.com/fiorix/go-diameter/diam.Conn.Close", "Conn.Close: releases the connection and its tasks: ghostLiveConns--",
		func(ex *Exec, fr *Frame, st *State, pc *Term, fn *ssa.Function, args []Value, pos token.Pos) (Value, *Term) {
			bump(ex, fr, st, pc, True, -1)
			return VTuple{}, pc
		})
	regExtern("github.com/fiorix/go-diameter/diam.Conn.Context", "Conn.Context: opaque", func(ex *Exec, fr *Frame, st *State, pc *Term, fn *ssa.Function, args []Value, pos token.Pos) (Value, *Term) {
		return VIface{Fresh("ctx.tag", BV64), Fresh("ctx.pay", BV64)}, pc
	})
	regExtern("github.com/fiorix/go-diameter/diam/sm/smpeer.FromContext", "smpeer.FromContext: (metadata, ok); the metadata is non-nil when ok",
		func(ex *Exec, fr *Frame, st *State, pc *Term, fn *ssa.Function, args []Value, pos token.Pos) (Value, *Term) {
			ok := Fresh("meta.ok", BoolSort)
			p := Fresh("meta.ptr", BV64)
			ex.assume(pc, And(ULt(p, st.next), Implies(ok, Not(Eq(p, C64(0))))))
			return VTuple{[]Value{VPtr{T: p}, VBool{ok}}}, pc
		})
	regExtern("github.com/fiorix/go-diameter/diam.NewRequest", "diam.NewRequest: a new message", func(ex *Exec, fr *Frame, st *State, pc *Term, fn *ssa.Function, args []Value, pos token.Pos) (Value, *Term) {
		return VPtr{T: ex.alloc(st, pc)}, pc
	})
	externWrites["github.com/fiorix/go-diameter/diam.NewRequest"] = []string{"next"}
	regPrefix("(*github.com/fiorix/go-diameter/diam/sm.StateMachine).", "sm.StateMachine methods: no effect on modelled state", pureOpaque)
	regPrefix("github.com/fiorix/go-diameter/diam/sm.", "sm package functions: opaque", pureOpaque)
}

func init() {
	// server start-up of the rating and account-balance functions (pkg/rf, pkg/abmf)
	regExtern("(*github.com/fiorix/go-diameter/diam/dict.Parser).Load", "dict.Parser.Load: any error result (the dictionaries themselves are the subject of the avp obligations)", pureOpaque)
	regExtern("github.com/fiorix/go-diameter/diam.ListenAndServeTLS", "diam.ListenAndServeTLS: serves until it fails; any error result", pureOpaque)
	regExtern("github.com/fiorix/go-diameter/diam.ListenAndServe", "diam.ListenAndServe: serves until it fails; any error result", pureOpaque)
	regExtern("github.com/fiorix/go-diameter/diam/sm.New", "sm.New(settings): a new non-nil state machine", func(ex *Exec, fr *Frame, st *State, pc *Term, fn *ssa.Function, args []Value, pos token.Pos) (Value, *Term) {
		p := ex.alloc(st, pc)
		return VPtr{T: p}, pc
	})
	externWrites["github.com/fiorix/go-diameter/diam/sm.New"] = []string{"next"}
	// the generated OpenAPI client used for the re-authorisation notification (internal/sbi/processor)
	newObj := func(ex *Exec, fr *Frame, st *State, pc *Term, fn *ssa.Function, args []Value, pos token.Pos) (Value, *Term) {
		return VPtr{T: ex.alloc(st, pc)}, pc
	}
	for _, n := range []string{"NewConfiguration", "NewAPIClient", "NewPostChargingNotificationRequest"} {
		regExtern("github.com/free5gc/openapi/chf/ConvergedCharging."+n, "ConvergedCharging."+n+": a new non-nil object", newObj)
		externWrites["github.com/free5gc/openapi/chf/ConvergedCharging."+n] = []string{"next"}
	}
	regExtern("context.Background", "context.Background: an opaque context value", pureOpaque)
	regExtern("(*github.com/free5gc/openapi/chf/ConvergedCharging.PostChargingNotificationRequest).SetChargingNotifyRequest", "SetChargingNotifyRequest: stores the body in the request object; no effect on modelled state", pureOpaque)
	regExtern("(*github.com/free5gc/openapi/chf/ConvergedCharging.DefaultApiService).PostChargingNotification", "DefaultApiService.PostChargingNotification: hands one notification to the HTTP client (ghostNotifications++); any response, any error",
		func(ex *Exec, fr *Frame, st *State, pc *Term, fn *ssa.Function, args []Value, pos token.Pos) (Value, *Term) {
			if g, ok := ex.ghostVar(fr, "ghostNotifications"); ok {
				cur := ex.ghostLoad(st, pc, g).(VBV).T
				ex.ghostStore(st, g, VBV{Add(cur, C64(1))})
			}
			return pureOpaque(ex, fr, st, pc, fn, args, pos)
		})
	regExtern("github.com/fiorix/go-diameter/diam.NewAVP", "diam.NewAVP: a new non-nil AVP (it returns the address of a composite literal)", func(ex *Exec, fr *Frame, st *State, pc *Term, fn *ssa.Function, args []Value, pos token.Pos) (Value, *Term) {
		return VPtr{T: ex.alloc(st, pc)}, pc
	})
	externWrites["github.com/fiorix/go-diameter/diam.NewAVP"] = []string{"next"}
}
