package main

import (
	"fmt"
	"go/token"
	"go/types"
	"sort"
	"strings"

	"golang.org/x/tools/go/ssa"
)

const maxInlineDepth = 12

// ---------------------------------------------------------------- calls

func (ex *Exec) call(fr *Frame, st *State, pc *Term, site ssa.Instruction, cc *ssa.CallCommon) (Value, *Term) {
	var args []Value
	for _, a := range cc.Args {
		args = append(args, ex.val(fr, st, a))
	}
	var fnv Value
	if cc.IsInvoke() {
		fnv = ex.val(fr, st, cc.Value)
	} else if _, ok := cc.Value.(*ssa.Builtin); !ok {
		fnv = ex.val(fr, st, cc.Value)
	}
	return ex.callWith(fr, st, pc, site, cc, fnv, args)
}

func (ex *Exec) callWith(fr *Frame, st *State, pc *Term, site ssa.Instruction, cc *ssa.CallCommon, fnv Value, args []Value) (Value, *Term) {
	pos := site.Pos()
	if !pos.IsValid() {
		pos = cc.Pos()
	}
	if b, ok := cc.Value.(*ssa.Builtin); ok && !cc.IsInvoke() {
		return ex.builtin(fr, st, pc, b, cc, args, pos, site), pc
	}
	if cc.IsInvoke() {
		return ex.invoke(fr, st, pc, cc, fnv.(VIface), args, pos)
	}
	switch f := fnv.(type) {
	case VFunc:
		if f.St != nil {
			sf := &Frame{fn: fr.fn, vals: fr.vals, depth: fr.depth, spec: true}
			return ex.inline(sf, f.St, pc, f.Fn, args, f.Binds, true, pos), pc
		}
		return ex.callFn(fr, st, pc, f.Fn, args, f.Binds, pos)
	default:
		panic(unsupported(fmt.Sprintf("dynamic call through %T at %s", fnv, ex.V.fset.Position(pos))))
	}
}

func fnKey(fn *ssa.Function) string {
	if fn.Origin() != nil {
		fn = fn.Origin()
	}
	return fn.String()
}

func (ex *Exec) callFn(fr *Frame, st *State, pc *Term, fn *ssa.Function, args []Value, binds []Value, pos token.Pos) (Value, *Term) {
	key := fnKey(fn)
	// specification primitives
	base := key
	if i := strings.LastIndex(base, "."); i >= 0 {
		base = base[i+1:]
	}
	if i := strings.Index(key, "["); i >= 0 {
		// instance of a generic primitive
		base = key[:i]
		if j := strings.LastIndex(base, "."); j >= 0 {
			base = base[j+1:]
		}
	}
	switch base {
	case "verif_forall", "verif_forall2", "verif_forall3":
		return ex.specForall(fr, st, pc, args[0]), pc
	case "verif_forall_range":
		return ex.specForallRange(fr, st, pc, args[0].(VBV).T, args[1].(VBV).T, args[2]), pc
	case "verif_validated":
		return VBool{And(Not(Eq(args[0].(VPtr).T, C64(0))), ex.validatedPred(st, pc, fn.Signature.Params().At(0).Type(), args[0], 0))}, pc
	case "verif_guarded":
		return VBool{Select(st.comp(compGuarded, heldSort), lockID(args[0]))}, pc
	case "verif_same":
		// identity of two references (maps, pointers, slices): equal representation
		a, b := toLeaves(args[0]), toLeaves(args[1])
		var eqs []*Term
		for i := range a {
			eqs = append(eqs, Eq(a[i], b[i]))
		}
		return VBool{And(eqs...)}, pc
	case "verif_preserved":
		ex.lastPreserved = [2]Value{args[0], args[1]}
		ex.lastPreservedSt = st.clone() // holds the cells of the captured variables
		return VBool{True}, pc
	case "verif_held":
		// the mutex is held by the current request
		ex.freshLockFact(pc, args[0])
		return VBool{Select(st.comp(compHeld, heldSort), lockID(args[0]))}, pc
	case "verif_disjoint":
		// the element windows of two slices do not overlap
		a, b := args[0].(VSlice), args[1].(VSlice)
		return VBool{Or(Not(Eq(a.Arr, b.Arr)), SLe(Add(a.Off, a.Len), b.Off), SLe(Add(b.Off, b.Len), a.Off))}, pc
	case "verif_exists":
		return VBool{Not(ex.specForall(fr, st, pc, negClosure{args[0]}).(VBool).T)}, pc
	}
	if h, ok := externs[key]; ok {
		if v, pc2, done := ex.reflectPre(fr, st, pc, key, args, pos); done {
			return v, pc2
		}
		v, pc2 := h(ex, fr, st, pc, fn, args, pos)
		ex.reflectPost(fr, st, pc2, key, fn, args, v)
		return v, pc2
	}
	if h := externByPrefix(key); h != nil {
		if v, pc2, done := ex.reflectPre(fr, st, pc, key, args, pos); done {
			return v, pc2
		}
		v, pc2 := h(ex, fr, st, pc, fn, args, pos)
		ex.reflectPost(fr, st, pc2, key, fn, args, v)
		return v, pc2
	}
	c := ex.V.contractFor(fn)
	if c != nil && c.Abstract {
		return ex.abstractCall(fn, args), pc
	}
	if ex.V.isSpecFn(fn) {
		if isSelfRecursive(fn) {
			return ex.recCall(fr, st, pc, fn, args), pc
		}
		return ex.inline(fr, st, pc, fn, args, binds, true, pos), pc
	}
	if c != nil && !c.Inline && !(fr.top && false) {
		if ex.curContract != nil && fn.Pkg != nil && has(ex.curContract.InlineCalls, fn.RelString(fn.Pkg.Pkg)) {
			return ex.inline(fr, st, pc, fn, args, binds, false, pos), pc
		}
		return ex.modularCall(fr, st, pc, fn, c, args, binds, pos)
	}
	if fr.spec {
		return ex.inline(fr, st, pc, fn, args, binds, true, pos), pc
	}
	if (c != nil && c.Inline) || ex.V.autoInline(fn) {
		return ex.inline(fr, st, pc, fn, args, binds, false, pos), pc
	}
	panic(unsupported(fmt.Sprintf("call to %s without contract or extern model (at %s)", key, ex.V.fset.Position(pos))))
}

type negClosure struct{ inner Value }

// inline executes the callee body in place.
func (ex *Exec) inline(fr *Frame, st *State, pc *Term, fn *ssa.Function, args, binds []Value, spec bool, pos token.Pos) Value {
	if fr.depth > maxInlineDepth {
		panic(unsupported("inline depth exceeded at " + fn.String()))
	}
	if len(fn.Blocks) == 0 {
		panic(unsupported("no body for " + fn.String()))
	}
	nf := &Frame{fn: fn, vals: map[ssa.Value]Value{}, params: args, depth: fr.depth + 1, spec: fr.spec || spec, freeVars: binds}
	nf.pcBase = pc
	if fr.pcBase != nil {
		nf.pcBase = And(fr.pcBase, pc)
	}
	if !nf.spec {
		nf.label = fn.Name()
		if fr.label != "" {
			nf.label = fr.label + ">" + fn.Name()
		}
	}
	for i, p := range fn.Params {
		nf.vals[p] = args[i]
	}
	var work *State
	if nf.spec {
		work = st.clone()
		work.defers = nil
	} else {
		work = st
	}
	saved := work.defers
	work.defers = nil
	saveAssume := len(ex.assumptions)
	saveKeep := len(ex.keepFacts)
	ex.runBody(nf, work, True)
	if nf.spec {
		// specification code contributes no assumptions, except range facts of uninterpreted results
		// (assumeAlways), which hold wherever the term occurs
		ex.assumptions = ex.assumptions[:saveAssume]
		_ = saveKeep
	}
	if len(nf.results) == 0 {
		// no normal return (always panics)
		if !nf.spec {
			*st = *work
			st.defers = saved
		}
		return zeroValue(fn.Signature.Results())
	}
	var ins []incoming
	var rv Value
	for i := len(nf.results) - 1; i >= 0; i-- {
		r := nf.results[i]
		if rv == nil {
			rv = r.val
		} else {
			rv = iteValue(r.pc, r.val, rv)
		}
	}
	if !nf.spec {
		for _, r := range nf.results {
			ins = append(ins, incoming{nil, r.pc, r.st})
		}
		_, merged := ex.mergeStates(ins)
		*st = *merged.clone()
		st.defers = saved
	} else if _, isFn := rv.(VFunc); isFn {
		for _, r := range nf.results {
			ins = append(ins, incoming{nil, r.pc, r.st})
		}
		_, ex.lastSpecState = ex.mergeStates(ins)
	}
	return rv
}

// specForall: run the closure body on a fresh bound variable
func (ex *Exec) specForall(fr *Frame, st *State, pc *Term, f Value) Value {
	neg := false
	if n, ok := f.(negClosure); ok {
		neg = true
		f = n.inner
	}
	cl, ok := f.(VFunc)
	if !ok {
		panic(unsupported("verif_forall needs a function literal"))
	}
	var bvs []*Term
	var args []Value
	for _, p := range cl.Fn.Params {
		ss := leafSorts(p.Type())
		ls := make([]*Term, len(ss))
		for i, s := range ss {
			ls[i] = Bound(p.Name(), s)
			bvs = append(bvs, ls[i])
		}
		args = append(args, fromLeaves(p.Type(), ls))
	}
	sf := &Frame{fn: fr.fn, vals: fr.vals, depth: fr.depth, spec: true}
	body := ex.inline(sf, st, pc, cl.Fn, args, cl.Binds, true, token.NoPos).(VBool).T
	if neg {
		body = Not(body)
	}
	return VBool{Forall(bvs, body)}
}

func (ex *Exec) abstractCall(fn *ssa.Function, args []Value) Value {
	var ts []*Term
	for _, a := range args {
		ts = append(ts, toLeaves(a)...)
	}
	res := fn.Signature.Results()
	ss := leafSorts(res)
	ls := make([]*Term, len(ss))
	for i, s := range ss {
		ls[i] = App(fmt.Sprintf("abs$%s$%d", relName(fn), i), s, ts...)
	}
	if res.Len() == 1 {
		return fromLeaves(res.At(0).Type(), ls)
	}
	return fromLeaves(res, ls)
}

// ---------------------------------------------------------------- clause evaluation

type clauseEnv struct {
	args    []Value // entry/argument values
	results []Value
	cells   func(p ClauseParam) Value
	pre     *State // state for old()
}

func (ex *Exec) evalClauseEnv(fr *Frame, st *State, pc *Term, cl *Clause, env *clauseEnv) Value {
	fn := ex.V.clauseFn(cl)
	if fn == nil {
		panic(fmt.Sprintf("clause function %s not found", cl.FnName))
	}
	var args []Value
	for _, p := range cl.Params {
		switch p.Kind {
		case "param":
			if env.cells != nil {
				if v := env.cells(p); v != nil {
					args = append(args, v)
					continue
				}
			}
			args = append(args, env.args[p.Index])
		case "entry":
			args = append(args, env.args[p.Index])
		case "result":
			args = append(args, env.results[p.Index])
		case "local", "iter":
			v := env.cells(p)
			if v == nil {
				panic(fmt.Sprintf("clause %s: cannot resolve %s", cl.FnName, p.Name))
			}
			args = append(args, v)
		case "old":
			ofn := ex.V.fnByName(fn.Pkg, p.OldFn)
			sf := &Frame{fn: fr.fn, vals: fr.vals, depth: fr.depth, spec: true}
			ov := ex.inline(sf, env.pre, True, ofn, env.args, nil, true, token.NoPos)
			if f, ok := ov.(VFunc); ok {
				f.St = ex.lastSpecState
				ov = f
			}
			args = append(args, ov)
		}
	}
	sf := &Frame{fn: fr.fn, vals: fr.vals, depth: fr.depth, spec: true}
	k0 := len(ex.keepFacts)
	res := ex.inline(sf, st, pc, fn, args, nil, true, token.NoPos)
	// range facts of uninterpreted results met while evaluating the clause stay available
	for _, f := range ex.keepFacts[k0:] {
		if !f.bound {
			ex.assumptions = append(ex.assumptions, f)
		}
	}
	ex.keepFacts = ex.keepFacts[:k0]
	return res
}

// evalClause for the function being verified (top frame)
func (ex *Exec) evalClause(fr *Frame, st *State, pc *Term, cl *Clause, results []Value) *Term {
	env := &clauseEnv{args: fr.params, results: results, pre: fr.entry}
	if cl.Kind == "invariant" || cl.Kind == "decreases" || cl.Kind == "assert" || cl.Kind == "preserved" {
		env.cells = func(p ClauseParam) Value { return ex.cellValue(fr, st, cl, p) }
	}
	v := ex.evalClauseEnv(fr, st, pc, cl, env)
	switch x := v.(type) {
	case VBool:
		return x.T
	case VBV:
		return x.T
	}
	panic("clause value")
}

func (ex *Exec) cellValue(fr *Frame, st *State, cl *Clause, p ClauseParam) Value {
	switch p.Kind {
	case "param":
		for a := range st.cells {
			if a.Comment == p.Name && a.Parent() == fr.fn && isParamSpill(a, fr.fn, p.Index) {
				return st.cells[a]
			}
		}
		return nil
	case "local":
		for a := range st.cells {
			if a.Comment != p.Name || a.Parent() != fr.fn {
				continue
			}
			pp := ex.V.fset.Position(a.Pos())
			if fmt.Sprintf("%s:%d:%d", pp.Filename, pp.Line, pp.Column) == p.DeclPos {
				return st.cells[a]
			}
		}
		// heap-allocated locals (captured or address taken)
		for v, val := range fr.vals {
			a, ok := v.(*ssa.Alloc)
			if !ok || !a.Heap || a.Comment != p.Name {
				continue
			}
			pp := ex.V.fset.Position(a.Pos())
			if fmt.Sprintf("%s:%d:%d", pp.Filename, pp.Line, pp.Column) == p.DeclPos {
				t := under(a.Type()).(*types.Pointer).Elem()
				return ex.loadObj(st, True, t, val.(VPtr).T)
			}
		}
		return nil
	case "iter":
		li := ex.V.loopOf(fr.fn, cl.Loop)
		// the rangeindex cell is allocated just before the loop header (the cells of nested range
		// loops are allocated inside this loop's body and must not be mistaken for it)
		for _, pr := range li.header.Preds {
			if li.body[pr] {
				continue
			}
			for _, in := range pr.Instrs {
				if a, ok := in.(*ssa.Alloc); ok && a.Comment == "rangeindex" {
					if v, ok := st.cells[a]; ok {
						return VBV{Add(v.(VBV).T, C64(1))}
					}
				}
			}
		}
		return nil
	}
	return nil
}

func isParamSpill(a *ssa.Alloc, fn *ssa.Function, idx int) bool {
	if idx >= len(fn.Params) {
		return false
	}
	// the spill cell receives the parameter in the entry block
	for _, in := range fn.Blocks[0].Instrs {
		if s, ok := in.(*ssa.Store); ok && s.Addr == ssa.Value(a) && s.Val == ssa.Value(fn.Params[idx]) {
			return true
		}
	}
	return false
}

// ---------------------------------------------------------------- modular calls

func (ex *Exec) checkRequires(fr *Frame, st *State, pc *Term, fn *ssa.Function, c *Contract, args, binds []Value, pos token.Pos) {
	env := &clauseEnv{args: args, pre: st}
	for _, r := range c.Requires {
		t := ex.evalClauseEnv(fr, st, pc, r, env).(VBool).T
		ex.oblige(fr, "pre", fn.Name()+": "+r.Text, pos, pc, t, r.Props)
	}
}

type modTarget struct {
	kind  string
	val   Value
	typ   types.Type
	field string
}

func (ex *Exec) modTargets(fr *Frame, st *State, pc *Term, c *Contract, args []Value) []modTarget {
	var out []modTarget
	env := &clauseEnv{args: args, pre: st}
	for _, m := range c.Modifies {
		fn := ex.V.clauseFn(m)
		v := ex.evalClauseEnv(fr, st, pc, m, env)
		out = append(out, modTarget{m.ModKind, v, fn.Signature.Results().At(0).Type(), m.ModField})
	}
	return out
}

// inMod: condition under which index i of component comp (and row index j for E components) may be modified.
func (ex *Exec) inMod(targets []modTarget, comp string, i, j *Term) *Term {
	var cs []*Term
	for _, t := range targets {
		switch t.kind {
		case "elems":
			s := t.val.(VSlice)
			et := under(t.typ).(*types.Slice).Elem()
			if strings.HasPrefix(comp, "E|"+typeKey(et)+"|") {
				c := Eq(i, s.Arr)
				if j != nil {
					c = And(c, SLe(s.Off, j), SLt(j, Add(s.Off, s.Len)))
				}
				cs = append(cs, c)
			}
		case "obj":
			p := t.val.(VPtr)
			et := under(t.typ).(*types.Pointer).Elem()
			if strings.HasPrefix(comp, "H|"+typeKey(et)+"|") {
				cs = append(cs, Eq(i, p.T))
			}
		case "field":
			p := t.val.(VPtr)
			et := under(t.typ).(*types.Pointer).Elem()
			stt := under(et).(*types.Struct)
			for k := 0; k < stt.NumFields(); k++ {
				if stt.Field(k).Name() == t.field {
					lo, hi := fieldLeafRange(stt, k)
					for l := lo; l < hi; l++ {
						if comp == hCompName(et, l) {
							cs = append(cs, Eq(i, p.T))
						}
					}
				}
			}
		case "mapof":
			m := t.val.(VMap)
			if strings.HasPrefix(comp, "M|"+typeKey(t.typ)+"|") {
				cs = append(cs, Eq(i, m.T))
			}
		case "global":
			p := t.val.(VPtr)
			et := under(t.typ).(*types.Pointer).Elem()
			if strings.HasPrefix(comp, "H|"+typeKey(et)+"|") {
				cs = append(cs, Eq(i, p.T))
			}
		}
	}
	return Or(cs...)
}

func (ex *Exec) modularCall(fr *Frame, st *State, pc *Term, fn *ssa.Function, c *Contract, args, binds []Value, pos token.Pos) (Value, *Term) {
	if fr.spec {
		panic(unsupported("specification calls " + fn.String() + " which has a (non-inline) contract"))
	}
	ex.checkRequires(fr, st, pc, fn, c, args, binds, pos)
	pre := st.clone()
	prePC, preN := pc, len(ex.assumptions)
	targets := ex.modTargets(fr, st, pc, c, args)
	ws := ex.V.writeSet(fn)
	nextPre := st.next
	if ws["next"] {
		st.next = Fresh("next", BV64)
		nextSyms[st.next] = true
		if b, k, ok := splitAddConst(nextPre); ok && nextSyms[b] {
			nextGE[st.next] = idBound{b, k}
		}
		ex.assume(pc, And(ULe(nextPre, st.next), ULt(st.next, C64(1<<56))))
	}
	// Only the declared targets change (the callee proves its frame). Objects the callee
	// allocates live at ids >= nextPre, about which nothing was ever assumed, so the
	// components need not be replaced as a whole: the havoc is a set of point updates.
	ex.havocTargets(st, pc, targets)
	if c.ModAny {
		ex.havocWritten(st, fn, ws)
	}
	// ghost components (files, buffers, sync.Map versions) the callee may write are unknown afterwards;
	// the lock set is restored by the callee (its lock-balance obligation)
	for comp := range ws {
		if strings.HasPrefix(comp, "G|") && comp != compHeld && !objectKeyedGhost[comp] && compSorts[comp] != nil {
			ex.noteWrite(comp)
			st.setComp(comp, Fresh("havoc$"+comp, compSorts[comp]))
		}
	}
	// results
	res := fn.Signature.Results()
	var rvals []Value
	for i := 0; i < res.Len(); i++ {
		v := freshValue(res.At(i).Type(), "ret$"+fn.Name())
		ex.assumeWF(st, pc, v)
		rvals = append(rvals, v)
	}
	env := &clauseEnv{args: args, results: rvals, pre: pre}
	for _, e := range c.Ensures {
		t := ex.evalClauseEnv(fr, st, pc, e, env).(VBool).T
		ex.assume(pc, t)
	}
	if cc := ex.curContract; cc != nil && !fr.spec && len(c.Ensures) > 0 {
		// guard against a callee postcondition that contradicts the caller's state (everything after
		// the call would be proved vacuously)
		base := relName(ex.curFn) + "#vacuity:call-returns:" + fn.Name()
		ex.nameCount[base]++
		ex.obls = append(ex.obls, &Obligation{Name: fmt.Sprintf("%s#%d", base, ex.nameCount[base]),
			Kind: "vacuity", Props: cc.Props, Fn: ex.curFn.String(), Pos: ex.V.fset.Position(pos).String(),
			NAssume: len(ex.assumptions), PC: pc, Goal: False, Vacuity: true, PrePC: prePC, PreNAssume: preN})
	}
	ex.V.noteUsed(c)
	switch len(rvals) {
	case 0:
		return VTuple{}, pc
	case 1:
		return rvals[0], pc
	}
	return VTuple{rvals}, pc
}

// ---------------------------------------------------------------- interface method calls

func (ex *Exec) invoke(fr *Frame, st *State, pc *Term, cc *ssa.CallCommon, recv VIface, args []Value, pos token.Pos) (Value, *Term) {
	ex.safety(fr, "nil", pos, pc, Not(Eq(recv.Tag, C64(0))))
	it := cc.Value.Type()
	key := types.TypeString(it, nil) + "." + cc.Method.Name()
	if h, ok := externs[key]; ok {
		return h(ex, fr, st, pc, nil, append([]Value{recv}, args...), pos)
	}
	if h := externByPrefix(key); h != nil {
		// opaque interface method of a dependency: arbitrary well-typed results, no effect on modelled state
		res := cc.Signature().Results()
		var vals []Value
		for i := 0; i < res.Len(); i++ {
			v := freshValue(res.At(i).Type(), "ext$"+cc.Method.Name())
			ex.assumeWF(st, pc, v)
			vals = append(vals, v)
		}
		switch len(vals) {
		case 0:
			return VTuple{}, pc
		case 1:
			return vals[0], pc
		}
		return VTuple{vals}, pc
	}
	// interface contract
	if c := ex.V.ifaceContract(it, cc.Method.Name()); c != nil {
		return ex.ifaceCall(fr, st, pc, cc, c, recv, args, pos)
	}
	if key == "error.Error" {
		return VStr{App("error.Error", StrSort, recv.Tag, recv.Pay)}, pc
	}
	panic(unsupported("invoke " + key + " without interface contract"))
}

// ---------------------------------------------------------------- builtins

func (ex *Exec) builtin(fr *Frame, st *State, pc *Term, b *ssa.Builtin, cc *ssa.CallCommon, args []Value, pos token.Pos, site ssa.Instruction) Value {
	switch b.Name() {
	case "recover":
		// every possible panic of the verified code is a separate obligation: under those, nothing is recovered
		return VIface{C64(0), C64(0)}
	case "len":
		switch x := args[0].(type) {
		case VSlice:
			return VBV{x.Len}
		case VStr:
			return VBV{StrLen(x.T)}
		case VMap:
			n := App("maplen", BV64, x.T, Fresh("mapver", BV64))
			ex.assume(pc, SLe(C64(0), n))
			return VBV{n}
		case VArr:
			return VBV{C64(under(cc.Args[0].Type()).(*types.Array).Len())}
		case VPtr:
			return VBV{C64(under(under(cc.Args[0].Type()).(*types.Pointer).Elem()).(*types.Array).Len())}
		case VOpaque:
			n := Fresh("chanlen", BV64)
			ex.assume(pc, SLe(C64(0), n))
			return VBV{n}
		}
	case "cap":
		switch x := args[0].(type) {
		case VSlice:
			return VBV{x.Cap}
		case VArr:
			return VBV{C64(under(cc.Args[0].Type()).(*types.Array).Len())}
		}
	case "append":
		return ex.doAppend(fr, st, pc, cc, args, pos, site)
	case "copy":
		return ex.doCopy(fr, st, pc, cc, args, pos)
	case "delete":
		m := args[0].(VMap)
		mt := under(cc.Args[0].Type()).(*types.Map)
		pn, ps, _, _ := mapComps(mt)
		c0 := st.comp(pn, ps)
		ex.noteWrite(pn)
		st.setComp(pn, Store(c0, m.T, storeN(Select(c0, m.T), keyTerm(args[1]), False)))
		return VTuple{}
	case "print", "println":
		return VTuple{}
	case "ssa:wrapnilchk":
		return args[0]
	case "ssa:deferstack":
		return VOpaque{Const(0, 64)}
	case "min", "max":
		// integers only
		a, bb := args[0].(VBV).T, args[1].(VBV).T
		signed := isSigned(cc.Args[0].Type())
		var lt *Term
		if signed {
			lt = SLt(a, bb)
		} else {
			lt = ULt(a, bb)
		}
		if b.Name() == "min" {
			return VBV{Ite(lt, a, bb)}
		}
		return VBV{Ite(lt, bb, a)}
	}
	panic(unsupported("builtin " + b.Name()))
}

// append(s, elems...) with exact aliasing semantics.
func (ex *Exec) doAppend(fr *Frame, st *State, pc *Term, cc *ssa.CallCommon, args []Value, pos token.Pos, site ssa.Instruction) Value {
	s := args[0].(VSlice)
	et := under(cc.Args[0].Type()).(*types.Slice).Elem()
	var src VSlice
	var srcRowFn func(i int, srt *Sort) *Term // source row per leaf
	switch y := args[1].(type) {
	case VSlice:
		src = y
		srcRowFn = func(i int, srt *Sort) *Term {
			return Select(st.comp(eCompName(et, i), ArrSort(BV64, ArrSort(BV64, srt))), y.Arr)
		}
	case VStr:
		n := StrLen(y.T)
		src = VSlice{C64(0), C64(0), n, n}
		srcRowFn = func(i int, srt *Sort) *Term { return StrRow(y.T) }
	default:
		panic(unsupported("append source"))
	}
	n := src.Len
	newLen := Add(s.Len, n)
	if site != nil && ex.linearAppend(fr, site) {
		return ex.doLinearAppend(st, pc, et, s, src, srcRowFn, n, newLen)
	}
	fits := SLe(newLen, s.Cap)
	// fresh array for the growing case
	p := ex.alloc(st, pc)
	newCap := Fresh("appendcap", BV64)
	ex.assume(pc, And(SLe(newLen, newCap), SLe(newCap, C64(int64(2*SizeBound)))))
	ex.assume(pc, SLe(newLen, C64(int64(SizeBound))))
	resArr := Ite(fits, s.Arr, p)
	resOff := Ite(fits, s.Off, C64(0))
	resCap := Ite(fits, s.Cap, newCap)
	single := n.IsConst() && n.Val <= 4
	for i, srt := range leafSorts(et) {
		name := eCompName(et, i)
		rowS := ArrSort(BV64, srt)
		c := st.comp(name, ArrSort(BV64, rowS))
		srcRow := srcRowFn(i, srt)
		if single {
			// in-place: write elements at off+len+k ; grow: copy old prefix + elements into fresh row
			inRow := Select(c, s.Arr)
			for k := uint64(0); k < n.Val; k++ {
				inRow = Store(inRow, Add(Add(s.Off, s.Len), C64(int64(k))), Select(srcRow, Add(src.Off, C64(int64(k)))))
			}
			fresh := RowCopy(ConstArr(rowS, zeroLeaf(srt)), C64(0), Select(c, s.Arr), s.Off, s.Len)
			for k := uint64(0); k < n.Val; k++ {
				fresh = Store(fresh, Add(s.Len, C64(int64(k))), Select(srcRow, Add(src.Off, C64(int64(k)))))
			}
			ex.noteWrite(name)
			st.setComp(name, Ite(fits, Store(c, s.Arr, inRow), Store(c, p, fresh)))
		} else {
			oldRow := Select(c, s.Arr)
			// in-place: the appended window of the old array is overwritten
			inRow := RowCopy(oldRow, Add(s.Off, s.Len), srcRow, src.Off, n)
			// growing: a fresh array holding the old prefix followed by the appended elements
			grow := RowCopy(RowCopy(ConstArr(rowS, zeroLeaf(srt)), C64(0), oldRow, s.Off, s.Len), s.Len, srcRow, src.Off, n)
			ex.noteWrite(name)
			st.setComp(name, Ite(fits, Store(c, s.Arr, inRow), Store(c, p, grow)))
		}
	}
	return VSlice{resArr, resOff, newLen, resCap}
}

func (ex *Exec) doCopy(fr *Frame, st *State, pc *Term, cc *ssa.CallCommon, args []Value, pos token.Pos) Value {
	d := args[0].(VSlice)
	et := under(cc.Args[0].Type()).(*types.Slice).Elem()
	var srcLen, srcOff *Term
	var srcRowFn func(i int, srt *Sort) *Term
	switch y := args[1].(type) {
	case VSlice:
		srcLen, srcOff = y.Len, y.Off
		srcRowFn = func(i int, srt *Sort) *Term {
			return Select(st.comp(eCompName(et, i), ArrSort(BV64, ArrSort(BV64, srt))), y.Arr)
		}
	case VStr:
		srcLen, srcOff = StrLen(y.T), C64(0)
		srcRowFn = func(i int, srt *Sort) *Term { return StrRow(y.T) }
	default:
		panic(unsupported("copy source"))
	}
	n := Ite(SLt(d.Len, srcLen), d.Len, srcLen)
	for i, srt := range leafSorts(et) {
		name := eCompName(et, i)
		rowS := ArrSort(BV64, srt)
		c := st.comp(name, ArrSort(BV64, rowS))
		srcRow := srcRowFn(i, srt)
		oldRow := Select(c, d.Arr)
		res := RowCopy(oldRow, d.Off, srcRow, srcOff, n)
		ex.noteWrite(name)
		st.setComp(name, Store(c, d.Arr, res))
	}
	return VBV{n}
}

// specForallRange: forall k in lo..hi (hi exclusive); constant ranges are expanded into ground instances
func (ex *Exec) specForallRange(fr *Frame, st *State, pc *Term, lo, hi *Term, f Value) Value {
	cl, ok := f.(VFunc)
	if !ok {
		panic(unsupported("verif_forall_range needs a function literal"))
	}
	sf := &Frame{fn: fr.fn, vals: fr.vals, depth: fr.depth, spec: true}
	if lo.IsConst() && hi.IsConst() && sx(hi.Val, 64)-sx(lo.Val, 64) <= 512 {
		var cs []*Term
		for k := sx(lo.Val, 64); k < sx(hi.Val, 64); k++ {
			kv := convInt(C64(k), types.Typ[types.Int64], cl.Fn.Params[0].Type())
			cs = append(cs, ex.inline(sf, st, pc, cl.Fn, []Value{VBV{kv}}, cl.Binds, true, token.NoPos).(VBool).T)
		}
		return VBool{And(cs...)}
	}
	p := cl.Fn.Params[0]
	b := Bound(p.Name(), leafSorts(p.Type())[0])
	body := ex.inline(sf, st, pc, cl.Fn, []Value{VBV{b}}, cl.Binds, true, token.NoPos).(VBool).T
	b64 := b
	if b.Sort.W < 64 {
		b64 = SExt(b, 64)
	}
	return VBool{Forall([]*Term{b}, Implies(And(SLe(lo, b64), SLt(b64, hi)), body))}
}

// ---- linear slices ---------------------------------------------------------------
// A slice variable declared `linear` is only ever used as  s = append(s, ...), s[i], len(s),
// cap(s) and return s  (checked on the SSA). The old value is dead after each append, so whether
// append worked in place or reallocated is unobservable inside the function. The model: the first
// append copies into a private array (and havocs the spare window [len,cap) of the old array,
// which an in-place append would have overwritten); later appends extend the private array.

var privateArrs = map[*Term]bool{}

func (ex *Exec) linearAppend(fr *Frame, site ssa.Instruction) bool {
	c := ex.contractOfFrame(fr)
	if c == nil || len(c.Linear) == 0 {
		return false
	}
	call, ok := site.(*ssa.Call)
	if !ok {
		return false
	}
	ld, ok := call.Call.Args[0].(*ssa.UnOp)
	if !ok {
		return false
	}
	switch a := ld.X.(type) {
	case *ssa.Alloc:
		for _, n := range c.Linear {
			if a.Comment == n {
				if err := checkLinearAddrs(fr.fn, []ssa.Value{a}); err != "" {
					panic(unsupported("variable " + n + " is declared linear but " + err))
				}
				return true
			}
		}
	case *ssa.FieldAddr:
		// linear field "recv.Field": every access to that field of that struct type in the function
		// must follow the linear discipline
		pt, ok := under(a.X.Type()).(*types.Pointer)
		if !ok {
			return false
		}
		stt, ok := under(pt.Elem()).(*types.Struct)
		if !ok {
			return false
		}
		fname := stt.Field(a.Field).Name()
		for _, n := range c.Linear {
			parts := strings.Split(n, ".")
			if len(parts) != 2 || parts[1] != fname {
				continue
			}
			var addrs []ssa.Value
			for _, b := range fr.fn.Blocks {
				for _, in := range b.Instrs {
					if fa, ok := in.(*ssa.FieldAddr); ok && fa.Field == a.Field && types.Identical(fa.X.Type(), a.X.Type()) {
						addrs = append(addrs, fa)
					}
				}
			}
			if err := checkLinearAddrs(fr.fn, addrs); err != "" {
				panic(unsupported("field " + n + " is declared linear but " + err))
			}
			// no call in the function may receive a pointer to the struct (an alias could touch the field)
			for _, b := range fr.fn.Blocks {
				for _, in := range b.Instrs {
					if ci, ok := in.(ssa.CallInstruction); ok {
						for _, arg := range ci.Common().Args {
							if types.Identical(arg.Type(), a.X.Type()) {
								panic(unsupported("field " + n + " is declared linear but a pointer to its struct is passed to a call"))
							}
						}
					}
				}
			}
			return true
		}
	}
	return false
}

var linearChecked = map[ssa.Value]string{}

// linearSource: a value that may be assigned to a linear slice variable: nil, a new slice, the
// parameter it spills, or an append to itself
func linearSource(v ssa.Value, isAddr func(ssa.Value) bool) bool {
	switch x := v.(type) {
	case *ssa.Const, *ssa.MakeSlice, *ssa.Parameter:
		return true
	case *ssa.Slice:
		// slice literal: a slice of a new array
		al, ok := x.X.(*ssa.Alloc)
		return ok && al.Heap
	case *ssa.Call:
		b, ok := x.Call.Value.(*ssa.Builtin)
		if !ok || b.Name() != "append" {
			return false
		}
		ld, ok := x.Call.Args[0].(*ssa.UnOp)
		return ok && isAddr(ld.X)
	}
	return false
}

// checkLinearAddrs: the variable (its address values) is only used as s = append(s, ...), s[i], len/cap(s), return s
func checkLinearAddrs(fn *ssa.Function, addrs []ssa.Value) string {
	if len(addrs) == 0 {
		return "it has no address"
	}
	if r, ok := linearChecked[addrs[0]]; ok {
		return r
	}
	isAddr := func(v ssa.Value) bool {
		for _, a := range addrs {
			if a == v {
				return true
			}
		}
		return false
	}
	res := ""
	for _, a := range addrs {
		if al, ok := a.(*ssa.Alloc); ok && al.Heap {
			res = "its address escapes"
		}
		refs := a.Referrers()
		if refs == nil {
			continue
		}
		for _, r := range *refs {
			switch x := r.(type) {
			case *ssa.DebugRef:
			case *ssa.Store:
				if !isAddr(x.Addr) {
					res = "its address is stored somewhere"
				} else if !linearSource(x.Val, isAddr) {
					res = "it is assigned from another slice"
				}
			case *ssa.UnOp: // load
				for _, u := range *x.Referrers() {
					switch y := u.(type) {
					case *ssa.DebugRef, *ssa.Return, *ssa.IndexAddr, *ssa.MakeInterface:
					case *ssa.Store:
						// copying into the anonymous result cell just before returning
						ra, ok := y.Addr.(*ssa.Alloc)
						if !ok || ra.Comment != "" || ra.Heap {
							res = "it is copied to another variable"
						}
					case *ssa.Call:
						b, ok := y.Call.Value.(*ssa.Builtin)
						if !ok {
							res = "it is passed to a call"
							break
						}
						switch b.Name() {
						case "len", "cap":
						case "append":
							if y.Call.Args[0] != ssa.Value(x) {
								res = "it is appended to another slice"
							}
							for _, w := range *y.Referrers() {
								switch z := w.(type) {
								case *ssa.DebugRef:
								case *ssa.Store:
									if !isAddr(z.Addr) {
										res = "an append result is stored elsewhere"
									}
								default:
									res = "an append result is used other than by assignment to itself"
								}
							}
						default:
							res = "it is passed to builtin " + b.Name()
						}
					default:
						res = fmt.Sprintf("it is used by %T", u)
					}
				}
			default:
				res = fmt.Sprintf("it is used by %T", r)
			}
		}
	}
	linearChecked[addrs[0]] = res
	return res
}

func (ex *Exec) doLinearAppend(st *State, pc *Term, et types.Type, s VSlice, src VSlice, srcRowFn func(int, *Sort) *Term, n, newLen *Term) Value {
	ex.assume(pc, SLe(newLen, C64(int64(SizeBound))))
	newCap := Fresh("lincap", BV64)
	ex.assume(pc, And(SLe(newLen, newCap), SLe(newCap, C64(int64(2*SizeBound)))))
	if privateArrs[s.Arr] {
		for i, srt := range leafSorts(et) {
			name := eCompName(et, i)
			c := st.comp(name, ArrSort(BV64, ArrSort(BV64, srt)))
			row := RowCopy(Select(c, s.Arr), Add(s.Off, s.Len), srcRowFn(i, srt), src.Off, n)
			ex.noteWrite(name)
			st.setComp(name, Store(c, s.Arr, row))
		}
		return VSlice{s.Arr, s.Off, newLen, newCap}
	}
	p := ex.alloc(st, pc)
	privateArrs[p] = true
	for i, srt := range leafSorts(et) {
		name := eCompName(et, i)
		rowS := ArrSort(BV64, srt)
		c := st.comp(name, ArrSort(BV64, rowS))
		oldRow := Select(c, s.Arr)
		srcRow := srcRowFn(i, srt)
		grow := RowCopy(RowCopy(ConstArr(rowS, zeroLeaf(srt)), C64(0), oldRow, s.Off, s.Len), s.Len, srcRow, src.Off, n)
		// an in-place append would have written the spare window of the old array
		spare := RowCopy(oldRow, Add(s.Off, s.Len), Fresh("spare", rowS), C64(0), Sub(s.Cap, s.Len))
		ex.noteWrite(name)
		st.setComp(name, Store(Store(c, s.Arr, spare), p, grow))
	}
	return VSlice{p, C64(0), newLen, newCap}
}

// havocTargets replaces the content of every modifies target by unknown values.
func (ex *Exec) havocTargets(st *State, pc *Term, targets []modTarget) {
	upd := func(name string, f func(c *Term) *Term) {
		srt := compSorts[name]
		if srt == nil {
			return
		}
		c := st.comp(name, srt)
		ex.noteWrite(name)
		st.setComp(name, f(c))
	}
	for _, t := range targets {
		switch t.kind {
		case "elems":
			s := t.val.(VSlice)
			et := under(t.typ).(*types.Slice).Elem()
			for i, srt := range leafSorts(et) {
				name := eCompName(et, i)
				compSorts[name] = ArrSort(BV64, ArrSort(BV64, srt))
				upd(name, func(c *Term) *Term {
					return Store(c, s.Arr, RowCopy(Select(c, s.Arr), s.Off, Fresh("havocrow", ArrSort(BV64, srt)), C64(0), s.Len))
				})
			}
		case "obj", "global":
			p := t.val.(VPtr)
			et := under(t.typ).(*types.Pointer).Elem()
			for i, srt := range leafSorts(et) {
				name := hCompName(et, i)
				compSorts[name] = ArrSort(BV64, srt)
				upd(name, func(c *Term) *Term { return Store(c, p.T, Fresh("havoc", srt)) })
			}
		case "field":
			p := t.val.(VPtr)
			et := under(t.typ).(*types.Pointer).Elem()
			stt := under(et).(*types.Struct)
			ss := leafSorts(et)
			for k := 0; k < stt.NumFields(); k++ {
				if stt.Field(k).Name() != t.field {
					continue
				}
				lo, hi := fieldLeafRange(stt, k)
				for l := lo; l < hi; l++ {
					name := hCompName(et, l)
					srt := ss[l]
					compSorts[name] = ArrSort(BV64, srt)
					upd(name, func(c *Term) *Term { return Store(c, p.T, Fresh("havoc", srt)) })
				}
			}
		case "mapof":
			m := t.val.(VMap)
			mt := under(t.typ).(*types.Map)
			pn, ps, vn, vs := mapComps(mt)
			compSorts[pn] = ps
			upd(pn, func(c *Term) *Term { return Store(c, m.T, Fresh("havocmap", ps.Elem)) })
			for i := range vn {
				srt := vs[i]
				compSorts[vn[i]] = srt
				upd(vn[i], func(c *Term) *Term { return Store(c, m.T, Fresh("havocmap", srt.Elem)) })
			}
		}
	}
}

// havocWritten: the callee promises no frame ("modifies-anything"), so every heap component its body
// (transitively) may write is unknown afterwards. The only objects kept are ghost globals (variables
// declared in *_verif.go files) of packages the callee's package does not import: no executable code
// can name them or hold their address, and neither can the callee's specification.
func (ex *Exec) havocWritten(st *State, fn *ssa.Function, ws map[string]bool) {
	reach := map[*types.Package]bool{}
	var walk func(p *types.Package)
	walk = func(p *types.Package) {
		if p == nil || reach[p] {
			return
		}
		reach[p] = true
		for _, q := range p.Imports() {
			walk(q)
		}
	}
	root := fn
	for root.Parent() != nil {
		root = root.Parent()
	}
	if root.Pkg != nil {
		walk(root.Pkg.Pkg)
	}
	type keep struct{ id, val *Term }
	kept := map[string][]keep{}
	for _, pkg := range ex.V.prog.AllPackages() {
		if reach[pkg.Pkg] || !strings.HasPrefix(pkg.Pkg.Path(), "github.com/free5gc/chf") {
			continue
		}
		for _, m := range pkg.Members {
			g, ok := m.(*ssa.Global)
			if !ok || !strings.HasSuffix(ex.V.fset.Position(g.Pos()).Filename, "_verif.go") {
				continue
			}
			et := under(g.Type()).(*types.Pointer).Elem()
			for i, srt := range leafSorts(et) {
				name := hCompName(et, i)
				if !ws[name] {
					continue
				}
				if compSorts[name] == nil {
					compSorts[name] = ArrSort(BV64, srt)
				}
				id := ex.V.globalID(g)
				kept[name] = append(kept[name], keep{id, Select(st.comp(name, compSorts[name]), id)})
			}
		}
	}
	var names []string
	for comp := range ws {
		names = append(names, comp)
	}
	sort.Strings(names)
	for _, comp := range names {
		if comp == "next" || strings.HasPrefix(comp, "G|") || compSorts[comp] == nil {
			continue
		}
		ex.noteWrite(comp)
		nc := Fresh("havoc$"+comp, compSorts[comp])
		for _, k := range kept[comp] {
			nc = Store(nc, k.id, k.val)
		}
		st.setComp(comp, nc)
	}
}

// ---- reflect.Value validity ("reflect-validity" in the contract of the function under verification) ----
//
// reflect stays an opaque dependency, with one of its panics modelled: every method of reflect.Value other
// than IsValid, Kind and String panics on the zero Value. valid(v) and isnil(v) are uninterpreted
// predicates of the value; ValueOf(x) is valid iff x is not the nil interface, Elem() of a nil pointer or
// interface is the zero Value, every other reflect.Value result is valid.

func reflectValid(v Value) *Term { return App("reflect.valid", BoolSort, toLeaves(v)...) }

// whether a pointer/interface/slice/map Value is nil can change when the variable it refers to is assigned
// through reflection: isnil depends on an epoch that every Value.Set advances
const compReflectEpoch = "G|reflect.epoch"

func reflectIsNil(st *State, v Value) *Term {
	return reflectIsNilAt(v, st.comp(compReflectEpoch, BV64))
}
func reflectIsNilAt(v Value, epoch *Term) *Term {
	return App("reflect.isnil", BoolSort, append(toLeaves(v), epoch)...)
}
func isReflectValue(t types.Type) bool {
	n, ok := t.(*types.Named)
	return ok && n.Obj().Pkg() != nil && n.Obj().Pkg().Path() == "reflect" && n.Obj().Name() == "Value"
}

func (ex *Exec) reflectOn(fr *Frame) bool {
	return ex.curContract != nil && ex.curContract.ReflectValid && !fr.spec
}

func (ex *Exec) reflectPre(fr *Frame, st *State, pc *Term, key string, args []Value, pos token.Pos) (Value, *Term, bool) {
	const pre = "(reflect.Value)."
	if !strings.HasPrefix(key, pre) || ex.curContract == nil || !ex.curContract.ReflectValid {
		return nil, nil, false
	}
	switch m := key[len(pre):]; m {
	case "IsValid":
		return VBool{reflectValid(args[0])}, pc, true
	case "IsNil":
		if !fr.spec {
			ex.safety(fr, "reflect-zero", pos, pc, reflectValid(args[0]))
		}
		return VBool{reflectIsNil(st, args[0])}, pc, true
	case "Kind", "String":
	default:
		if !fr.spec {
			ex.safety(fr, "reflect-zero", pos, pc, reflectValid(args[0]))
		}
	}
	return nil, nil, false
}

func (ex *Exec) reflectPost(fr *Frame, st *State, pc *Term, key string, fn *ssa.Function, args []Value, res Value) {
	if ex.curContract == nil || !ex.curContract.ReflectValid || !strings.Contains(key, "reflect.") {
		return
	}
	if key == "(reflect.Value).Set" && !fr.spec {
		// v.Set(x): afterwards v is nil exactly if x was; nothing else is known about nil-ness any more
		old := st.comp(compReflectEpoch, BV64)
		nw := Fresh("reflect.epoch", BV64)
		ex.noteWrite(compReflectEpoch)
		st.setComp(compReflectEpoch, nw)
		ex.assume(pc, Eq(reflectIsNilAt(args[0], nw), reflectIsNilAt(args[1], old)))
		return
	}
	if key == "(reflect.Value).Kind" {
		// the zero Value, and only it, has Kind Invalid (0)
		if k, ok := res.(VBV); ok {
			ex.assume(pc, Eq(reflectValid(args[0]), Not(Eq(k.T, Const(0, k.T.Sort.W)))))
		}
		return
	}
	rs := fn.Signature.Results()
	if rs.Len() != 1 || !isReflectValue(rs.At(0).Type()) {
		return
	}
	switch key {
	case "(reflect.Value).Elem":
		ex.assume(pc, Eq(reflectValid(res), Not(reflectIsNil(st, args[0]))))
	case "reflect.ValueOf":
		if i, ok := args[0].(VIface); ok {
			ex.assume(pc, Eq(reflectValid(res), Not(Eq(i.Tag, C64(0)))))
		}
	case "reflect.New":
		ex.assume(pc, And(reflectValid(res), Not(reflectIsNil(st, res))))
	case "reflect.Indirect":
		// Indirect(v) is v itself unless v is a pointer: nothing is known
	default:
		ex.assume(pc, reflectValid(res))
	}
}
