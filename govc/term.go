package main

// Term DAG with hash-consing, light simplification and SMT-LIB printing.

import (
	"fmt"
	"os"
	"sort"
	"strconv"
	"strings"
)

type SortKind int

const (
	SBool SortKind = iota
	SBV
	SArray
	SUninterp
)

type Sort struct {
	Kind SortKind
	W    int
	Idx  *Sort
	Elem *Sort
	Name string
	str  string
}

var sortTab = map[string]*Sort{}

func internSort(s *Sort) *Sort {
	switch s.Kind {
	case SBool:
		s.str = "Bool"
	case SBV:
		s.str = fmt.Sprintf("(_ BitVec %d)", s.W)
	case SArray:
		s.str = "(Array " + s.Idx.str + " " + s.Elem.str + ")"
	case SUninterp:
		s.str = s.Name
	}
	if o, ok := sortTab[s.str]; ok {
		return o
	}
	sortTab[s.str] = s
	return s
}

var BoolSort = internSort(&Sort{Kind: SBool})

func BV(w int) *Sort           { return internSort(&Sort{Kind: SBV, W: w}) }
func ArrSort(i, e *Sort) *Sort { return internSort(&Sort{Kind: SArray, Idx: i, Elem: e}) }
func USort(name string) *Sort  { return internSort(&Sort{Kind: SUninterp, Name: name}) }
func (s *Sort) String() string { return s.str }
func (s *Sort) IsBV() bool     { return s.Kind == SBV }
func (s *Sort) IsArray() bool  { return s.Kind == SArray }

var BV64 = BV(64)
var BV8 = BV(8)
var StrSort = USort("Str")

type Term struct {
	id    int
	Op    string // "const","true","false","var","bound", smt op names, "app:<fn>", "forall","exists","extract","zext","sext","constarr"
	Args  []*Term
	Sort  *Sort
	Val   uint64  // const value (bv)
	Name  string  // var / uf / bound name
	I, J  int     // extract hi/lo, ext amount
	bound bool    // contains a bound variable
	Bvars []*Term // for quantifiers
	Pats  [][]*Term
}

var termTab = map[string]*Term{}
var termCount int

// declared uninterpreted functions: name -> signature
type UF struct {
	Name string
	Args []*Sort
	Ret  *Sort
}

var ufTab = map[string]*UF{}
var varTab = map[string]*Term{}

func declUF(name string, args []*Sort, ret *Sort) *UF {
	if u, ok := ufTab[name]; ok {
		return u
	}
	u := &UF{name, args, ret}
	ufTab[name] = u
	return u
}

func mk(t *Term) *Term {
	var sb strings.Builder
	sb.WriteString(t.Op)
	sb.WriteByte('|')
	sb.WriteString(t.Sort.str)
	sb.WriteByte('|')
	sb.WriteString(t.Name)
	sb.WriteByte('|')
	sb.WriteString(strconv.FormatUint(t.Val, 16))
	sb.WriteByte('|')
	sb.WriteString(strconv.Itoa(t.I))
	sb.WriteByte(',')
	sb.WriteString(strconv.Itoa(t.J))
	for _, a := range t.Args {
		sb.WriteByte(' ')
		sb.WriteString(strconv.Itoa(a.id))
	}
	for _, b := range t.Bvars {
		sb.WriteString(" b")
		sb.WriteString(strconv.Itoa(b.id))
	}
	for _, p := range t.Pats {
		sb.WriteString(" p")
		for _, x := range p {
			sb.WriteString(strconv.Itoa(x.id))
			sb.WriteByte(',')
		}
	}
	k := sb.String()
	if o, ok := termTab[k]; ok {
		return o
	}
	termCount++
	t.id = termCount
	if t.Op == "bound" {
		t.bound = true
	}
	for _, a := range t.Args {
		if a.bound {
			t.bound = true
		}
	}
	termTab[k] = t
	return t
}

func mask(w int) uint64 {
	if w >= 64 {
		return ^uint64(0)
	}
	return (uint64(1) << uint(w)) - 1
}

func Const(v uint64, w int) *Term {
	return mk(&Term{Op: "const", Sort: BV(w), Val: v & mask(w)})
}
func C64(v int64) *Term { return Const(uint64(v), 64) }

var True = mk(&Term{Op: "true", Sort: BoolSort})
var False = mk(&Term{Op: "false", Sort: BoolSort})

func BoolC(b bool) *Term {
	if b {
		return True
	}
	return False
}

var freshCtr = map[string]int{}

func sanitize(s string) string {
	var sb strings.Builder
	for _, r := range s {
		if (r >= 'a' && r <= 'z') || (r >= 'A' && r <= 'Z') || (r >= '0' && r <= '9') || r == '_' || r == '.' || r == '$' || r == '!' {
			sb.WriteRune(r)
		} else {
			sb.WriteByte('_')
		}
	}
	return sb.String()
}

func Var(name string, s *Sort) *Term {
	name = sanitize(name)
	t := mk(&Term{Op: "var", Sort: s, Name: name})
	varTab[name] = t
	return t
}

func Fresh(prefix string, s *Sort) *Term {
	prefix = sanitize(prefix)
	freshCtr[prefix]++
	return Var(fmt.Sprintf("%s!%d", prefix, freshCtr[prefix]), s)
}

func Bound(prefix string, s *Sort) *Term {
	prefix = sanitize(prefix)
	freshCtr["b$"+prefix]++
	return mk(&Term{Op: "bound", Sort: s, Name: fmt.Sprintf("%s?%d", prefix, freshCtr["b$"+prefix])})
}

func (t *Term) IsConst() bool { return t.Op == "const" }
func (t *Term) IsTrue() bool  { return t.Op == "true" }
func (t *Term) IsFalse() bool { return t.Op == "false" }

func sx(v uint64, w int) int64 {
	if w >= 64 {
		return int64(v)
	}
	if v&(uint64(1)<<uint(w-1)) != 0 {
		return int64(v | ^mask(w))
	}
	return int64(v)
}

// ---- boolean ops

func Not(a *Term) *Term {
	switch a.Op {
	case "true":
		return False
	case "false":
		return True
	case "not":
		return a.Args[0]
	}
	return mk(&Term{Op: "not", Sort: BoolSort, Args: []*Term{a}})
}

func And(xs ...*Term) *Term {
	var out []*Term
	seen := map[int]bool{}
	for _, x := range xs {
		if x.IsFalse() {
			return False
		}
		if x.IsTrue() {
			continue
		}
		if x.Op == "and" {
			for _, y := range x.Args {
				if !seen[y.id] {
					seen[y.id] = true
					out = append(out, y)
				}
			}
			continue
		}
		if !seen[x.id] {
			seen[x.id] = true
			out = append(out, x)
		}
	}
	for _, x := range out {
		if x.Op == "not" && seen[x.Args[0].id] {
			return False
		}
	}
	if len(out) == 0 {
		return True
	}
	if len(out) == 1 {
		return out[0]
	}
	return mk(&Term{Op: "and", Sort: BoolSort, Args: out})
}

func Or(xs ...*Term) *Term {
	var out []*Term
	seen := map[int]bool{}
	for _, x := range xs {
		if x.IsTrue() {
			return True
		}
		if x.IsFalse() {
			continue
		}
		if x.Op == "or" {
			for _, y := range x.Args {
				if !seen[y.id] {
					seen[y.id] = true
					out = append(out, y)
				}
			}
			continue
		}
		if !seen[x.id] {
			seen[x.id] = true
			out = append(out, x)
		}
	}
	for _, x := range out {
		if x.Op == "not" && seen[x.Args[0].id] {
			return True
		}
	}
	if len(out) == 0 {
		return False
	}
	if len(out) == 1 {
		return out[0]
	}
	// factor common conjunct: (a&b)|(a&!b) -> a  (common after branch merges)
	if len(out) == 2 {
		a, b := out[0], out[1]
		if a.Op == "and" && b.Op == "and" {
			in := map[int]bool{}
			for _, x := range a.Args {
				in[x.id] = true
			}
			var common, ra, rb []*Term
			cm := map[int]bool{}
			for _, x := range b.Args {
				if in[x.id] {
					common = append(common, x)
					cm[x.id] = true
				} else {
					rb = append(rb, x)
				}
			}
			if len(common) > 0 {
				for _, x := range a.Args {
					if !cm[x.id] {
						ra = append(ra, x)
					}
				}
				return And(append(common, Or(And(ra...), And(rb...)))...)
			}
		}
	}
	return mk(&Term{Op: "or", Sort: BoolSort, Args: out})
}

func Implies(a, b *Term) *Term {
	if a.IsTrue() {
		return b
	}
	if a.IsFalse() || b.IsTrue() {
		return True
	}
	if b.IsFalse() {
		return Not(a)
	}
	return mk(&Term{Op: "=>", Sort: BoolSort, Args: []*Term{a, b}})
}

func Ite(c, a, b *Term) *Term {
	if c.IsTrue() {
		return a
	}
	if c.IsFalse() {
		return b
	}
	if a == b {
		return a
	}
	if a.Sort != b.Sort {
		panic(fmt.Sprintf("ite sort mismatch %s vs %s", a.Sort, b.Sort))
	}
	if a.Sort == BoolSort {
		if a.IsTrue() && b.IsFalse() {
			return c
		}
		if a.IsFalse() && b.IsTrue() {
			return Not(c)
		}
		if a.IsTrue() {
			return Or(c, b)
		}
		if b.IsFalse() {
			return And(c, a)
		}
		if a.IsFalse() {
			return And(Not(c), b)
		}
		if b.IsTrue() {
			return Or(Not(c), a)
		}
	}
	if c.Op == "not" {
		return Ite(c.Args[0], b, a)
	}
	// ite(c, x, ite(c, y, z)) -> ite(c,x,z)
	if b.Op == "ite" && b.Args[0] == c {
		return Ite(c, a, b.Args[2])
	}
	if a.Op == "ite" && a.Args[0] == c {
		return Ite(c, a.Args[1], b)
	}
	return mk(&Term{Op: "ite", Sort: a.Sort, Args: []*Term{c, a, b}})
}

func Eq(a, b *Term) *Term {
	if a == b {
		return True
	}
	if a.Sort != b.Sort {
		panic(fmt.Sprintf("eq sort mismatch %s vs %s: %s / %s", a.Sort, b.Sort, a, b))
	}
	if a.IsConst() && b.IsConst() {
		return BoolC(a.Val == b.Val)
	}
	if a.Sort == BoolSort {
		if a.IsTrue() {
			return b
		}
		if b.IsTrue() {
			return a
		}
		if a.IsFalse() {
			return Not(b)
		}
		if b.IsFalse() {
			return Not(a)
		}
	}
	// x+c1 == x+c2
	if ba, ca, ok := splitAddConst(a); ok {
		if bb, cb, ok2 := splitAddConst(b); ok2 && ba == bb {
			return BoolC(ca == cb)
		}
	}
	// ite(c, k1, k2) == k  with constants
	if a.Op == "ite" && b.IsConst() && a.Args[1].IsConst() && a.Args[2].IsConst() {
		return Ite(a.Args[0], Eq(a.Args[1], b), Eq(a.Args[2], b))
	}
	if b.Op == "ite" && a.IsConst() && b.Args[1].IsConst() && b.Args[2].IsConst() {
		return Ite(b.Args[0], Eq(b.Args[1], a), Eq(b.Args[2], a))
	}
	if a.id > b.id {
		a, b = b, a
	}
	return mk(&Term{Op: "=", Sort: BoolSort, Args: []*Term{a, b}})
}

// splitAddConst: t == base + c (c const); sums are kept in a canonical n-ary form with the constant last
func splitAddConst(t *Term) (*Term, uint64, bool) {
	if !t.Sort.IsBV() {
		return nil, 0, false
	}
	if t.Op == "bvadd" {
		last := t.Args[len(t.Args)-1]
		if last.IsConst() {
			rest := t.Args[:len(t.Args)-1]
			if len(rest) == 1 {
				return rest[0], last.Val, true
			}
			return mk(&Term{Op: "bvadd", Sort: t.Sort, Args: rest}), last.Val, true
		}
	}
	return t, 0, true
}

// linear normal form for + - neg and multiplication by constants
func linAdd(acc map[*Term]uint64, order *[]*Term, k *uint64, t *Term, coef uint64) {
	w := t.Sort.W
	switch {
	case t.IsConst():
		*k += coef * t.Val
	case t.Op == "bvadd":
		for _, a := range t.Args {
			linAdd(acc, order, k, a, coef)
		}
	case t.Op == "bvsub":
		linAdd(acc, order, k, t.Args[0], coef)
		linAdd(acc, order, k, t.Args[1], -coef)
	case t.Op == "bvneg":
		linAdd(acc, order, k, t.Args[0], -coef)
	case t.Op == "bvmul" && t.Args[0].IsConst():
		linAdd(acc, order, k, t.Args[1], coef*t.Args[0].Val)
	case t.Op == "bvmul" && t.Args[1].IsConst():
		linAdd(acc, order, k, t.Args[0], coef*t.Args[1].Val)
	default:
		if _, ok := acc[t]; !ok {
			*order = append(*order, t)
		}
		acc[t] = (acc[t] + coef) & mask(w)
	}
}

func linBuild(w int, acc map[*Term]uint64, order []*Term, k uint64) *Term {
	var args []*Term
	sort.Slice(order, func(i, j int) bool { return order[i].id < order[j].id })
	for _, t := range order {
		c := acc[t] & mask(w)
		switch {
		case c == 0:
		case c == 1:
			args = append(args, t)
		case c == mask(w):
			args = append(args, mk(&Term{Op: "bvneg", Sort: t.Sort, Args: []*Term{t}}))
		default:
			args = append(args, mk(&Term{Op: "bvmul", Sort: t.Sort, Args: []*Term{Const(c, w), t}}))
		}
	}
	k &= mask(w)
	if k != 0 || len(args) == 0 {
		args = append(args, Const(k, w))
	}
	if len(args) == 1 {
		return args[0]
	}
	return mk(&Term{Op: "bvadd", Sort: BV(w), Args: args})
}

func linear(a *Term, ca uint64, b *Term, cb uint64) *Term {
	acc := map[*Term]uint64{}
	var order []*Term
	var k uint64
	linAdd(acc, &order, &k, a, ca)
	if b != nil {
		linAdd(acc, &order, &k, b, cb)
	}
	return linBuild(a.Sort.W, acc, order, k)
}

// ---- bit-vector ops

func bvbin(op string, a, b *Term) *Term {
	if a.Sort != b.Sort {
		panic(fmt.Sprintf("%s sort mismatch %s vs %s (%s, %s)", op, a.Sort, b.Sort, a, b))
	}
	w := a.Sort.W
	if a.IsConst() && b.IsConst() {
		x, y := a.Val, b.Val
		switch op {
		case "bvadd":
			return Const(x+y, w)
		case "bvsub":
			return Const(x-y, w)
		case "bvmul":
			return Const(x*y, w)
		case "bvand":
			return Const(x&y, w)
		case "bvor":
			return Const(x|y, w)
		case "bvxor":
			return Const(x^y, w)
		case "bvshl":
			if y >= uint64(w) {
				return Const(0, w)
			}
			return Const(x<<y, w)
		case "bvlshr":
			if y >= uint64(w) {
				return Const(0, w)
			}
			return Const(x>>y, w)
		case "bvashr":
			s := sx(x, w)
			if y >= uint64(w) {
				if s < 0 {
					return Const(^uint64(0), w)
				}
				return Const(0, w)
			}
			return Const(uint64(s>>y), w)
		case "bvudiv":
			if y != 0 {
				return Const(x/y, w)
			}
		case "bvurem":
			if y != 0 {
				return Const(x%y, w)
			}
		case "bvsdiv":
			if y != 0 && !(sx(x, w) == -1<<63 && sx(y, w) == -1) {
				return Const(uint64(sx(x, w)/sx(y, w)), w)
			}
		case "bvsrem":
			if y != 0 && !(sx(x, w) == -1<<63 && sx(y, w) == -1) {
				return Const(uint64(sx(x, w)%sx(y, w)), w)
			}
		}
	}
	// an ite with a constant branch is lifted out of non-linear operators
	switch op {
	case "bvmul", "bvudiv", "bvurem", "bvsdiv", "bvsrem", "bvand", "bvor", "bvshl", "bvlshr", "bvashr":
		if a.Op == "ite" && !b.IsConst() && (a.Args[1].IsConst() || a.Args[2].IsConst()) && iteDepth(a) <= 4 {
			return Ite(a.Args[0], bvbin(op, a.Args[1], b), bvbin(op, a.Args[2], b))
		}
		if b.Op == "ite" && !a.IsConst() && (b.Args[1].IsConst() || b.Args[2].IsConst()) && iteDepth(b) <= 4 {
			return Ite(b.Args[0], bvbin(op, a, b.Args[1]), bvbin(op, a, b.Args[2]))
		}
	}
	switch op {
	case "bvadd":
		return linear(a, 1, b, 1)
	case "bvsub":
		return linear(a, 1, b, ^uint64(0))
	case "bvmul":
		if a.IsConst() {
			return linear(b, a.Val, nil, 0)
		}
		if b.IsConst() {
			return linear(a, b.Val, nil, 0)
		}
		if a.IsConst() && a.Val == 1 {
			return b
		}
		if b.IsConst() && b.Val == 1 {
			return a
		}
		if (a.IsConst() && a.Val == 0) || (b.IsConst() && b.Val == 0) {
			return Const(0, w)
		}
	case "bvand":
		if a == b {
			return a
		}
		if (a.IsConst() && a.Val == 0) || (b.IsConst() && b.Val == 0) {
			return Const(0, w)
		}
		if a.IsConst() && a.Val == mask(w) {
			return b
		}
		if b.IsConst() && b.Val == mask(w) {
			return a
		}
	case "bvor":
		if a == b {
			return a
		}
		if a.IsConst() && a.Val == 0 {
			return b
		}
		if b.IsConst() && b.Val == 0 {
			return a
		}
	case "bvshl", "bvlshr", "bvashr":
		if b.IsConst() && b.Val == 0 {
			return a
		}
	}
	return mk(&Term{Op: op, Sort: a.Sort, Args: []*Term{a, b}})
}

func Add(a, b *Term) *Term  { return bvbin("bvadd", a, b) }
func Sub(a, b *Term) *Term  { return bvbin("bvsub", a, b) }
func Mul(a, b *Term) *Term  { return bvbin("bvmul", a, b) }
func BAnd(a, b *Term) *Term { return bvbin("bvand", a, b) }
func BOr(a, b *Term) *Term  { return bvbin("bvor", a, b) }
func BXor(a, b *Term) *Term { return bvbin("bvxor", a, b) }
func Shl(a, b *Term) *Term  { return bvbin("bvshl", a, b) }
func LShr(a, b *Term) *Term { return bvbin("bvlshr", a, b) }
func AShr(a, b *Term) *Term { return bvbin("bvashr", a, b) }
func UDiv(a, b *Term) *Term { return bvbin("bvudiv", a, b) }
func URem(a, b *Term) *Term { return bvbin("bvurem", a, b) }
func SDiv(a, b *Term) *Term { return bvbin("bvsdiv", a, b) }
func SRem(a, b *Term) *Term { return bvbin("bvsrem", a, b) }

func BNot(a *Term) *Term {
	if a.IsConst() {
		return Const(^a.Val, a.Sort.W)
	}
	return mk(&Term{Op: "bvnot", Sort: a.Sort, Args: []*Term{a}})
}
func Neg(a *Term) *Term {
	return linear(a, ^uint64(0), nil, 0)
}

func bvcmp(op string, a, b *Term) *Term {
	if a.Sort != b.Sort {
		panic(fmt.Sprintf("%s sort mismatch %s vs %s (%s ; %s)", op, a.Sort, b.Sort, a, b))
	}
	w := a.Sort.W
	if a.IsConst() && b.IsConst() {
		switch op {
		case "bvult":
			return BoolC(a.Val < b.Val)
		case "bvule":
			return BoolC(a.Val <= b.Val)
		case "bvslt":
			return BoolC(sx(a.Val, w) < sx(b.Val, w))
		case "bvsle":
			return BoolC(sx(a.Val, w) <= sx(b.Val, w))
		}
	}
	if a == b {
		return BoolC(op == "bvule" || op == "bvsle")
	}
	// (x udiv y) * y <= x  holds for all bit-vectors (also for y = 0); bit-blasting it is hopeless
	if op == "bvule" && a.Op == "bvmul" && len(a.Args) == 2 {
		for i := 0; i < 2; i++ {
			d, y := a.Args[i], a.Args[1-i]
			if d.Op == "bvudiv" && d.Args[1] == y && d.Args[0] == b {
				return True
			}
		}
	}
	// lift a top-level ite out of the comparison (lets the rules above and constant folding fire per branch)
	if a.Op == "ite" && b.Op != "ite" && iteDepth(a) <= 6 {
		return Ite(a.Args[0], bvcmp(op, a.Args[1], b), bvcmp(op, a.Args[2], b))
	}
	if b.Op == "ite" && a.Op != "ite" && iteDepth(b) <= 6 {
		return Ite(b.Args[0], bvcmp(op, a, b.Args[1]), bvcmp(op, a, b.Args[2]))
	}
	if w == 64 && len(nonNeg) > 0 && (op == "bvslt" || op == "bvsle") {
		switch op {
		case "bvslt": // a < b
			if provablyGE(b, a, 1) {
				return True
			}
			if provablyGE(a, b, 0) {
				return False
			}
		case "bvsle": // a <= b
			if provablyGE(b, a, 0) {
				return True
			}
			if provablyGE(a, b, 1) {
				return False
			}
		}
	}
	return mk(&Term{Op: op, Sort: BoolSort, Args: []*Term{a, b}})
}

func iteDepth(t *Term) int {
	d := 0
	for t.Op == "ite" && d < 100 {
		d++
		if t.Args[2].Op == "ite" {
			t = t.Args[2]
		} else {
			t = t.Args[1]
		}
	}
	return d
}

func ULt(a, b *Term) *Term { return bvcmp("bvult", a, b) }
func ULe(a, b *Term) *Term { return bvcmp("bvule", a, b) }
func SLt(a, b *Term) *Term { return bvcmp("bvslt", a, b) }
func SLe(a, b *Term) *Term { return bvcmp("bvsle", a, b) }

func Extract(hi, lo int, a *Term) *Term {
	w := a.Sort.W
	if lo == 0 && hi == w-1 {
		return a
	}
	if a.IsConst() {
		return Const(a.Val>>uint(lo), hi-lo+1)
	}
	if (a.Op == "zext" || a.Op == "sext") && lo == 0 {
		inner := a.Args[0]
		iw := inner.Sort.W
		if hi+1 == iw {
			return inner
		}
		if hi+1 < iw {
			return Extract(hi, 0, inner)
		}
	}
	return mk(&Term{Op: "extract", Sort: BV(hi - lo + 1), Args: []*Term{a}, I: hi, J: lo})
}

func ZExt(a *Term, to int) *Term {
	w := a.Sort.W
	if to == w {
		return a
	}
	if to < w {
		return Extract(to-1, 0, a)
	}
	if a.IsConst() {
		return Const(a.Val, to)
	}
	if a.Op == "zext" {
		return ZExt(a.Args[0], to)
	}
	return mk(&Term{Op: "zext", Sort: BV(to), Args: []*Term{a}, I: to - w})
}

func SExt(a *Term, to int) *Term {
	w := a.Sort.W
	if to == w {
		return a
	}
	if to < w {
		return Extract(to-1, 0, a)
	}
	if a.IsConst() {
		return Const(uint64(sx(a.Val, w)), to)
	}
	return mk(&Term{Op: "sext", Sort: BV(to), Args: []*Term{a}, I: to - w})
}

// ---- arrays

// provably distinct indices (syntactic)
// allocation knowledge: idUpper[t] lists (base, k) with t < base + k; nextSyms are the symbols
// standing for the allocation counter (all >= next0 > 4096).
type idBound struct {
	base *Term
	k    uint64
}

// nonNeg: terms known to lie in [0, 2^45] (lengths, offsets, capacities)
var nonNeg = map[*Term]bool{}

// signLowerBound: is the 64-bit term d provably >= c (signed), using nonNeg atoms?  d must be a
// sum of at most 16 nonNeg atoms with coefficient 1 plus a small constant.
func sumOfNonNeg(d *Term) (int64, bool) {
	return lowerBound(d, 0)
}

// lowerBound: a signed lower bound of a 64-bit term built from small constants, nonNeg atoms,
// sums and ites (all magnitudes stay far below 2^62, so there is no wrap-around)
func lowerBound(d *Term, depth int) (int64, bool) {
	if d.Sort.W != 64 || depth > 6 {
		return 0, false
	}
	switch {
	case d.IsConst():
		v := int64(d.Val)
		if v > 1<<50 || v < -(1<<50) {
			return 0, false
		}
		return v, true
	case nonNeg[d]:
		return 0, true
	case d.Op == "ite":
		x, ok1 := lowerBound(d.Args[1], depth+1)
		y, ok2 := lowerBound(d.Args[2], depth+1)
		if !ok1 || !ok2 {
			return 0, false
		}
		if y < x {
			x = y
		}
		return x, true
	case d.Op == "bvadd" && len(d.Args) <= 16:
		var c int64
		for _, a := range d.Args {
			v, ok := lowerBound(a, depth+1)
			if !ok {
				return 0, false
			}
			c += v
		}
		return c, true
	}
	return 0, false
}

// provablyGE: a - b >= c (signed, no overflow) ?
func provablyGE(a, b *Term, c int64) bool {
	if a.Sort.W != 64 {
		return false
	}
	d := Sub(a, b)
	if lo, ok := sumOfNonNeg(d); ok && lo >= c {
		return true
	}
	return false
}

var idUpper = map[*Term][]idBound{}
var nextSyms = map[*Term]bool{}
var nextGE = map[*Term]idBound{} // next symbol >= base + k

func noteLess(t, next *Term) {
	base, k, ok := splitAddConst(next)
	if !ok || !nextSyms[base] {
		return
	}
	for _, b := range idUpper[t] {
		if b.base == base && b.k <= k {
			return
		}
	}
	idUpper[t] = append(idUpper[t], idBound{base, k})
}

// lessThanAlloc: is t known to be smaller than base + j ?
func lessThanAlloc(t *Term, base *Term, j uint64) bool {
	if t.IsConst() && t.Val < 4096 {
		return true
	}
	for _, b := range idUpper[t] {
		cb, ck := b.base, b.k
		for depth := 0; depth < 8; depth++ {
			if cb == base {
				if ck <= j {
					return true
				}
				break
			}
			// t < cb + ck ; is cb + ck <= base ?  follow base >= g.base + g.k downwards
			g, ok := nextGE[base]
			if !ok {
				break
			}
			if g.base == cb && ck <= g.k {
				return true
			}
			base, j = g.base, 0
			if g.base == cb {
				break
			}
		}
	}
	return false
}

func distinctIdx(a, b *Term) bool {
	if a.IsConst() && b.IsConst() {
		return a.Val != b.Val
	}
	if a.Sort.IsBV() && a.Sort.W == 64 && len(nonNeg) > 0 {
		if provablyGE(a, b, 1) || provablyGE(b, a, 1) {
			return true
		}
	}
	if a.Sort.IsBV() && a.Sort.W == 64 {
		if ba, ja, ok := splitAddConst(a); ok && nextSyms[ba] && lessThanAlloc(b, ba, ja) {
			return true
		}
		if bb, jb, ok := splitAddConst(b); ok && nextSyms[bb] && lessThanAlloc(a, bb, jb) {
			return true
		}
	}
	if a.Sort.IsBV() {
		ba, ca, ok := splitAddConst(a)
		bb, cb, ok2 := splitAddConst(b)
		if ok && ok2 && ba == bb && ca != cb {
			return true
		}
	}
	return false
}

func Select(arr, idx *Term) *Term {
	if !arr.Sort.IsArray() {
		panic("select on non-array " + arr.String())
	}
	if arr.Sort.Idx != idx.Sort {
		panic(fmt.Sprintf("select index sort mismatch: %s vs %s", arr.Sort, idx.Sort))
	}
	for {
		if arr.Op == "store" {
			if arr.Args[1] == idx {
				return arr.Args[2]
			}
			if distinctIdx(arr.Args[1], idx) {
				arr = arr.Args[0]
				continue
			}
		}
		if arr.Op == "constarr" {
			return arr.Args[0]
		}
		break
	}
	if arr.Op == "rowcopy" {
		base, lo, src, slo, n := arr.Args[0], arr.Args[1], arr.Args[2], arr.Args[3], arr.Args[4]
		in := And(SLe(lo, idx), SLt(idx, Add(lo, n)))
		return Ite(in, Select(src, Add(slo, Sub(idx, lo))), Select(base, idx))
	}
	// an ite in the index: split on its condition and cofactor the array with it
	if c := firstIteCond(idx); c != nil && !(idx.bound && noLiftBound) {
		return Ite(c, Select(cofactor(arr, c, true), cofactor(idx, c, true)), Select(cofactor(arr, c, false), cofactor(idx, c, false)))
	}
	if arr.Op == "ite" && (reducible(arr.Args[1]) || reducible(arr.Args[2])) {
		return Ite(arr.Args[0], Select(arr.Args[1], idx), Select(arr.Args[2], idx))
	}
	return mk(&Term{Op: "select", Sort: arr.Sort.Elem, Args: []*Term{arr, idx}})
}

func firstIteCond(idx *Term) *Term {
	if idx.Op == "ite" {
		return idx.Args[0]
	}
	if idx.Op == "bvadd" {
		for _, a := range idx.Args {
			if a.Op == "ite" {
				return a.Args[0]
			}
		}
	}
	return nil
}

// cofactor: t under the assumption that condition c has the given truth value (ites on c are resolved)
func cofactor(t *Term, c *Term, val bool) *Term {
	cache := map[int]*Term{}
	var rec func(t *Term) *Term
	rec = func(t *Term) *Term {
		if len(t.Args) == 0 {
			return t
		}
		if r, ok := cache[t.id]; ok {
			return r
		}
		var r *Term
		switch t.Op {
		case "ite":
			if t.Args[0] == c {
				if val {
					r = rec(t.Args[1])
				} else {
					r = rec(t.Args[2])
				}
			} else {
				r = Ite(t.Args[0], rec(t.Args[1]), rec(t.Args[2]))
			}
		case "bvadd", "store", "select", "rowcopy":
			args := make([]*Term, len(t.Args))
			ch := false
			for i, a := range t.Args {
				args[i] = rec(a)
				if args[i] != a {
					ch = true
				}
			}
			if ch {
				r = rebuild(t, args)
			} else {
				r = t
			}
		default:
			r = t
		}
		cache[t.id] = r
		return r
	}
	return rec(t)
}

// reducible: a select on this array term can make progress syntactically
func reducible(a *Term) bool {
	switch a.Op {
	case "store", "rowcopy", "constarr", "ite":
		return true
	}
	return false
}

// RowCopy: base with the window [lo, lo+n) replaced by src[slo ...]
func RowCopy(base, lo, src, slo, n *Term) *Term {
	if n.IsConst() && n.Val == 0 {
		return base
	}
	return mk(&Term{Op: "rowcopy", Sort: base.Sort, Args: []*Term{base, lo, src, slo, n}})
}

func Store(arr, idx, v *Term) *Term {
	if !arr.Sort.IsArray() {
		panic("store on non-array")
	}
	if arr.Sort.Idx != idx.Sort || arr.Sort.Elem != v.Sort {
		panic(fmt.Sprintf("store sort mismatch: %s [%s] := %s", arr.Sort, idx.Sort, v.Sort))
	}
	if arr.Op == "store" && arr.Args[1] == idx {
		arr = arr.Args[0]
	}
	// store(a, i, select(a,i)) = a
	if v.Op == "select" && v.Args[0] == arr && v.Args[1] == idx {
		return arr
	}
	return mk(&Term{Op: "store", Sort: arr.Sort, Args: []*Term{arr, idx, v}})
}

func ConstArr(s *Sort, v *Term) *Term {
	return mk(&Term{Op: "constarr", Sort: s, Args: []*Term{v}})
}

func App(name string, ret *Sort, args ...*Term) *Term {
	name = sanitize(name)
	var as []*Sort
	for _, a := range args {
		as = append(as, a.Sort)
	}
	declUF(name, as, ret)
	return mk(&Term{Op: "app", Name: name, Sort: ret, Args: args})
}

// rebase: a bound variable k that indexes arrays only as (OFF + k) with a ground OFF is
// replaced by k' - OFF, so that the quantified fact is keyed on the absolute index
// select(row, k') and E-matching needs no arithmetic.
func rebase(bvars []*Term, body *Term) ([]*Term, *Term) {
	out := append([]*Term{}, bvars...)
	for bi, b := range bvars {
		if !b.Sort.IsBV() {
			continue
		}
		cands := map[*Term]int{}
		var order []*Term
		plain := false
		seen := map[int]bool{}
		var rec func(t *Term)
		rec = func(t *Term) {
			if !t.bound || seen[t.id] {
				return
			}
			seen[t.id] = true
			if t.Op == "select" && t.Args[1].bound && t.Args[1].Sort == b.Sort {
				idx := t.Args[1]
				if idx == b {
					plain = true
				} else if idx.Op == "bvadd" {
					var rest []*Term
					found := 0
					for _, a := range idx.Args {
						if a == b {
							found++
						} else {
							rest = append(rest, a)
						}
					}
					ground := true
					for _, r := range rest {
						if r.bound {
							ground = false
						}
					}
					if found == 1 && ground && len(rest) > 0 {
						var off *Term
						if len(rest) == 1 {
							off = rest[0]
						} else {
							off = mk(&Term{Op: "bvadd", Sort: idx.Sort, Args: rest})
						}
						if _, ok := cands[off]; !ok {
							order = append(order, off)
						}
						cands[off]++
					}
				}
			}
			for _, a := range t.Args {
				rec(a)
			}
		}
		rec(body)
		if plain || len(order) == 0 {
			continue
		}
		best := order[0]
		for _, o := range order {
			// prefer non-constant offsets (slice offsets) and the most frequent
			if (!o.IsConst() && best.IsConst()) || (o.IsConst() == best.IsConst() && cands[o] > cands[best]) {
				best = o
			}
		}
		nb := Bound(strings.SplitN(b.Name, "?", 2)[0], b.Sort)
		body = Subst(body, map[*Term]*Term{b: Sub(nb, best)})
		out[bi] = nb
	}
	return out, body
}

var rebaseEnabled = false

func Forall(bvars []*Term, body *Term, pats ...[]*Term) *Term {
	if !body.bound {
		return body
	}
	if body.IsTrue() {
		return True
	}
	if len(pats) == 0 && rebaseEnabled {
		bvars, body = rebase(bvars, body)
	}
	t := mk(&Term{Op: "forall", Sort: BoolSort, Args: []*Term{body}, Bvars: bvars, Pats: pats})
	t.bound = containsOtherBound(body, bvars)
	return t
}

func Exists(bvars []*Term, body *Term) *Term {
	if !body.bound {
		return body
	}
	t := mk(&Term{Op: "exists", Sort: BoolSort, Args: []*Term{body}, Bvars: bvars})
	t.bound = containsOtherBound(body, bvars)
	return t
}

func containsOtherBound(t *Term, bv []*Term) bool {
	seen := map[int]bool{}
	var rec func(t *Term) bool
	rec = func(t *Term) bool {
		if !t.bound || seen[t.id] {
			return false
		}
		seen[t.id] = true
		if t.Op == "bound" {
			for _, b := range bv {
				if b == t {
					return false
				}
			}
			return true
		}
		if t.Op == "forall" || t.Op == "exists" {
			inner := append(append([]*Term{}, bv...), t.Bvars...)
			return containsOtherBound(t.Args[0], inner)
		}
		for _, a := range t.Args {
			if rec(a) {
				return true
			}
		}
		return false
	}
	return rec(t)
}

// Subst replaces terms by terms (used for skolemisation and instantiation).
func Subst(t *Term, m map[*Term]*Term) *Term {
	cache := map[int]*Term{}
	var rec func(t *Term) *Term
	rec = func(t *Term) *Term {
		if r, ok := m[t]; ok {
			return r
		}
		if len(t.Args) == 0 {
			return t
		}
		if r, ok := cache[t.id]; ok {
			return r
		}
		args := make([]*Term, len(t.Args))
		ch := false
		for i, a := range t.Args {
			args[i] = rec(a)
			if args[i] != a {
				ch = true
			}
		}
		var r *Term
		if !ch {
			r = t
		} else {
			r = rebuild(t, args)
		}
		cache[t.id] = r
		return r
	}
	return rec(t)
}

func rebuild(t *Term, a []*Term) *Term {
	switch t.Op {
	case "not":
		return Not(a[0])
	case "and":
		return And(a...)
	case "or":
		return Or(a...)
	case "=>":
		return Implies(a[0], a[1])
	case "ite":
		return Ite(a[0], a[1], a[2])
	case "=":
		return Eq(a[0], a[1])
	case "bvadd":
		r := a[0]
		for _, x := range a[1:] {
			r = Add(r, x)
		}
		return r
	case "bvsub", "bvmul", "bvand", "bvor", "bvxor", "bvshl", "bvlshr", "bvashr", "bvudiv", "bvurem", "bvsdiv", "bvsrem":
		return bvbin(t.Op, a[0], a[1])
	case "bvnot":
		return BNot(a[0])
	case "bvneg":
		return Neg(a[0])
	case "bvult", "bvule", "bvslt", "bvsle":
		return bvcmp(t.Op, a[0], a[1])
	case "extract":
		return Extract(t.I, t.J, a[0])
	case "zext":
		return ZExt(a[0], t.Sort.W)
	case "sext":
		return SExt(a[0], t.Sort.W)
	case "select":
		return Select(a[0], a[1])
	case "store":
		return Store(a[0], a[1], a[2])
	case "constarr":
		return ConstArr(t.Sort, a[0])
	case "rowcopy":
		return RowCopy(a[0], a[1], a[2], a[3], a[4])
	case "app":
		return App(t.Name, t.Sort, a...)
	case "forall":
		return Forall(t.Bvars, a[0], t.Pats...)
	case "exists":
		return Exists(t.Bvars, a[0])
	}
	panic("rebuild: " + t.Op)
}

// ---- printing

func (t *Term) String() string {
	var sb strings.Builder
	printTerm(&sb, t, nil, 0)
	s := sb.String()
	if len(s) > 400 {
		s = s[:400] + "..."
	}
	return s
}

func bvlit(v uint64, w int) string {
	if w%4 == 0 {
		return fmt.Sprintf("#x%0*x", w/4, v)
	}
	return fmt.Sprintf("#b%0*b", w, v)
}

func printTerm(sb *strings.Builder, t *Term, names map[int]string, depth int) {
	if names != nil {
		if n, ok := names[t.id]; ok {
			sb.WriteString(n)
			return
		}
	}
	switch t.Op {
	case "const":
		sb.WriteString(bvlit(t.Val, t.Sort.W))
	case "true", "false":
		sb.WriteString(t.Op)
	case "var", "bound":
		sb.WriteString("|" + t.Name + "|")
	case "extract":
		fmt.Fprintf(sb, "((_ extract %d %d) ", t.I, t.J)
		printTerm(sb, t.Args[0], names, depth+1)
		sb.WriteString(")")
	case "zext":
		fmt.Fprintf(sb, "((_ zero_extend %d) ", t.I)
		printTerm(sb, t.Args[0], names, depth+1)
		sb.WriteString(")")
	case "sext":
		fmt.Fprintf(sb, "((_ sign_extend %d) ", t.I)
		printTerm(sb, t.Args[0], names, depth+1)
		sb.WriteString(")")
	case "constarr":
		fmt.Fprintf(sb, "((as const %s) ", t.Sort.str)
		printTerm(sb, t.Args[0], names, depth+1)
		sb.WriteString(")")
	case "app":
		if len(t.Args) == 0 {
			sb.WriteString("|" + t.Name + "|")
			return
		}
		sb.WriteString("(|" + t.Name + "|")
		for _, a := range t.Args {
			sb.WriteByte(' ')
			printTerm(sb, a, names, depth+1)
		}
		sb.WriteString(")")
	case "forall", "exists":
		sb.WriteString("(" + t.Op + " (")
		for _, b := range t.Bvars {
			fmt.Fprintf(sb, "(|%s| %s)", b.Name, b.Sort.str)
		}
		sb.WriteString(") ")
		if len(t.Pats) > 0 {
			sb.WriteString("(! ")
		}
		printTerm(sb, t.Args[0], names, depth+1)
		if len(t.Pats) > 0 {
			for _, p := range t.Pats {
				sb.WriteString(" :pattern (")
				for i, x := range p {
					if i > 0 {
						sb.WriteByte(' ')
					}
					printTerm(sb, x, names, depth+1)
				}
				sb.WriteString(")")
			}
			sb.WriteString(")")
		}
		sb.WriteString(")")
	default:
		sb.WriteString("(" + t.Op)
		for _, a := range t.Args {
			sb.WriteByte(' ')
			printTerm(sb, a, names, depth+1)
		}
		sb.WriteString(")")
	}
}

// collect walks the DAG below roots and returns terms in dependency order
// (children first), plus reference counts.
func collect(roots []*Term) ([]*Term, map[int]int) {
	refs := map[int]int{}
	var order []*Term
	seen := map[int]bool{}
	var rec func(t *Term)
	rec = func(t *Term) {
		refs[t.id]++
		if seen[t.id] {
			return
		}
		seen[t.id] = true
		for _, a := range t.Args {
			rec(a)
		}
		for _, p := range t.Pats {
			for _, x := range p {
				rec(x)
			}
		}
		order = append(order, t)
	}
	for _, r := range roots {
		rec(r)
	}
	return order, refs
}

// SMTScript renders (assert a_i)... for the given assertions with shared
// ground subterms hoisted into define-fun.
// elimRowCopy replaces the remaining rowcopy terms by fresh constants with defining axioms.
func elimRowCopy(asserts []*Term) []*Term {
	for round := 0; round < 8; round++ {
		order, _ := collect(asserts)
		m := map[*Term]*Term{}
		var ax []*Term
		for _, t := range order {
			if t.Op == "constarr" && !t.bound && !isSMTValue(t.Args[0]) {
				// cvc5 only accepts values in constant arrays: name the array and state its contents
				v := Fresh("constarr", t.Sort)
				m[t] = v
				j := Bound("j", t.Sort.Idx)
				if !relaxRowCopy {
					ax = append(ax, mkForallRaw2([]*Term{j}, Eq(Select(v, j), t.Args[0]), [][]*Term{{Select(v, j)}}))
				}
				continue
			}
			if t.Op != "rowcopy" || t.bound {
				continue
			}
			v := Fresh("rowcopy", t.Sort)
			m[t] = v
			base, lo, src, slo, n := t.Args[0], t.Args[1], t.Args[2], t.Args[3], t.Args[4]
			j := Bound("j", t.Sort.Idx)
			in := And(SLe(lo, j), SLt(j, Add(lo, n)))
			ax = append(ax, mkForallRaw2([]*Term{j}, Implies(in, Eq(Select(v, j), Select(src, Add(slo, Sub(j, lo))))), [][]*Term{{Select(v, j)}}))
			ax = append(ax, mkForallRaw2([]*Term{j}, Implies(Not(in), Eq(Select(v, j), Select(base, j))), [][]*Term{{Select(v, j)}}))
		}
		if len(m) == 0 {
			return asserts
		}
		if relaxRowCopy {
			ax = nil // quantifier-free relaxation: the copied rows stay unconstrained
		}
		out := make([]*Term, 0, len(asserts)+len(ax))
		for _, a := range ax {
			out = append(out, Subst(a, m))
		}
		for _, a := range asserts {
			out = append(out, Subst(a, m))
		}
		asserts = out
	}
	return asserts
}

func isSMTValue(t *Term) bool {
	switch t.Op {
	case "const", "true", "false":
		return true
	case "constarr":
		return isSMTValue(t.Args[0])
	}
	return false
}

// relaxRowCopy: set (under vcMu) while the quantifier-free relaxation of a VC is rendered
var relaxRowCopy bool

func mkForallRaw2(bvars []*Term, body *Term, pats [][]*Term) *Term {
	if !body.bound {
		return body
	}
	t := mk(&Term{Op: "forall", Sort: BoolSort, Args: []*Term{body}, Bvars: bvars, Pats: pats})
	t.bound = containsOtherBound(body, bvars)
	return t
}

// named: additional terms to be defined under the given names (model inspection); they share
// sub-terms with the assertions.
func SMTScript(asserts []*Term, extra []string, named map[string]*Term) string {
	nAssert := len(asserts)
	var namedKeys []string
	for k := range named {
		namedKeys = append(namedKeys, k)
	}
	sort.Strings(namedKeys)
	all := append([]*Term{}, asserts...)
	for _, k := range namedKeys {
		all = append(all, named[k])
	}
	all = elimRowCopy(all)
	// elimRowCopy may prepend axioms: the named terms are the last len(namedKeys) entries
	asserts = all[:len(all)-len(namedKeys)]
	namedTerms := all[len(all)-len(namedKeys):]
	_ = nAssert
	order, refs := collect(all)
	var sb strings.Builder
	sorts := map[string]bool{}
	var declSort func(s *Sort)
	declSort = func(s *Sort) {
		switch s.Kind {
		case SArray:
			declSort(s.Idx)
			declSort(s.Elem)
		case SUninterp:
			if !sorts[s.Name] {
				sorts[s.Name] = true
				fmt.Fprintf(&sb, "(declare-sort %s 0)\n", s.Name)
			}
		}
	}
	ufs := map[string]bool{}
	var ufNames []string
	for _, t := range order {
		declSort(t.Sort)
		for _, b := range t.Bvars {
			declSort(b.Sort)
		}
		if t.Op == "app" && !ufs[t.Name] {
			ufs[t.Name] = true
			ufNames = append(ufNames, t.Name)
		}
	}
	sort.Strings(ufNames)
	for _, n := range ufNames {
		u := ufTab[n]
		for _, a := range u.Args {
			declSort(a)
		}
		declSort(u.Ret)
	}
	var vars []*Term
	for _, t := range order {
		if t.Op == "var" {
			vars = append(vars, t)
		}
	}
	sort.Slice(vars, func(i, j int) bool { return vars[i].Name < vars[j].Name })
	for _, v := range vars {
		fmt.Fprintf(&sb, "(declare-fun |%s| () %s)\n", v.Name, v.Sort.str)
	}
	for _, n := range ufNames {
		u := ufTab[n]
		var as []string
		for _, a := range u.Args {
			as = append(as, a.str)
		}
		fmt.Fprintf(&sb, "(declare-fun |%s| (%s) %s)\n", n, strings.Join(as, " "), u.Ret.str)
	}
	for _, e := range extra {
		sb.WriteString(e)
		sb.WriteByte('\n')
	}
	names := map[int]string{}
	for _, t := range order {
		if t.bound || len(t.Args) == 0 || t.Op == "const" {
			continue
		}
		if refs[t.id] < 2 {
			continue
		}
		n := fmt.Sprintf("$t%d", t.id)
		sb.WriteString("(define-fun " + n + " () " + t.Sort.str + " ")
		printTerm(&sb, t, names, 0)
		sb.WriteString(")\n")
		names[t.id] = n
	}
	for _, a := range asserts {
		sb.WriteString("(assert ")
		printTerm(&sb, a, names, 0)
		sb.WriteString(")\n")
	}
	for i, k := range namedKeys {
		t := namedTerms[i]
		if t.bound {
			continue
		}
		sb.WriteString("(define-fun |" + k + "| () " + t.Sort.str + " ")
		printTerm(&sb, t, names, 0)
		sb.WriteString(")\n")
	}
	return sb.String()
}

// noLiftBound: do not split selects on ite conditions when the index mentions quantified variables
var noLiftBound = os.Getenv("GOVC_NOLIFT_BOUND") != ""

// abstractMul replaces every product of two non-constant operands by an application of an uninterpreted
// (commutative by argument ordering) function. A VC that is valid under this abstraction is valid.
func abstractMul(ts []*Term) []*Term {
	cache := map[int]*Term{}
	var rec func(t *Term) *Term
	rec = func(t *Term) *Term {
		if len(t.Args) == 0 {
			return t
		}
		if r, ok := cache[t.id]; ok {
			return r
		}
		args := make([]*Term, len(t.Args))
		ch := false
		for i, a := range t.Args {
			args[i] = rec(a)
			if args[i] != a {
				ch = true
			}
		}
		var r *Term
		if t.Op == "bvmul" && len(args) == 2 && !args[0].IsConst() && !args[1].IsConst() {
			a, b := args[0], args[1]
			if b.id < a.id {
				a, b = b, a
			}
			r = App(fmt.Sprintf("absmul%d", t.Sort.W), t.Sort, a, b)
		} else if !ch {
			r = t
		} else {
			r = rebuild(t, args)
		}
		cache[t.id] = r
		return r
	}
	out := make([]*Term, len(ts))
	for i, t := range ts {
		out[i] = rec(t)
	}
	return out
}
