package main

// Assumed contracts: bytes.Buffer, encoding/binary, os file I/O (ghost file map).

import (
	"fmt"
	"go/token"
	"go/types"

	"golang.org/x/tools/go/ssa"
)

var (
	bufRowS  = ArrSort(BV64, ArrSort(BV64, BV8))
	bufLenS  = ArrSort(BV64, BV64)
	fileRowS = ArrSort(StrSort, ArrSort(BV64, BV8))
	fileLenS = ArrSort(StrSort, BV64)
)

const (
	compBufRow  = "G|bytes.Buffer|row"
	compBufLen  = "G|bytes.Buffer|len"
	compFileRow = "G|file|row"
	compFileLen = "G|file|len"
)

func init() {
	compSorts[compBufRow] = bufRowS
	compSorts[compBufLen] = bufLenS
	compSorts[compFileRow] = fileRowS
	compSorts[compFileLen] = fileLenS

	regExtern("encoding/binary.Write", "binary.Write(*bytes.Buffer, BigEndian, v): appends the big-endian bytes of fixed-size integers, byte arrays and byte slices; returns nil",
		func(ex *Exec, fr *Frame, st *State, pc *Term, fn *ssa.Function, args []Value, pos token.Pos) (Value, *Term) {
			w := args[0].(VIface)
			data := args[2].(VIface)
			if !w.Tag.IsConst() || !data.Tag.IsConst() {
				panic(unsupported("binary.Write with statically unknown writer or data type"))
			}
			wt := tagTypes[w.Tag.Val]
			if types.TypeString(wt, nil) != "*bytes.Buffer" {
				panic(unsupported("binary.Write to " + types.TypeString(wt, nil)))
			}
			buf := w.Pay
			ex.safety(fr, "nil", pos, pc, Not(Eq(buf, C64(0))))
			dt := tagTypes[data.Tag.Val]
			v := ex.unbox(st, pc, data.Pay, dt)
			row := Select(st.comp(compBufRow, bufRowS), buf)
			ln := Select(st.comp(compBufLen, bufLenS), buf)
			var n *Term
			switch u := under(dt).(type) {
			case *types.Basic:
				wd, _ := intWidth(u)
				if wd == 0 {
					panic(unsupported("binary.Write of " + dt.String()))
				}
				t := v.(VBV).T
				for i := 0; i < wd/8; i++ {
					row = Store(row, Add(ln, C64(int64(i))), Extract(wd-1-8*i, wd-8-8*i, t))
				}
				n = C64(int64(wd / 8))
			case *types.Array:
				a := v.(VArr)
				row = RowCopy(row, ln, a.Leaves[0], C64(0), C64(u.Len()))
				n = C64(u.Len())
			case *types.Slice:
				s := v.(VSlice)
				src := Select(st.comp(eCompName(u.Elem(), 0), ArrSort(BV64, ArrSort(BV64, BV8))), s.Arr)
				row = RowCopy(row, ln, src, s.Off, s.Len)
				n = s.Len
			default:
				panic(unsupported("binary.Write of " + dt.String()))
			}
			ex.noteWrite(compBufRow)
			ex.noteWrite(compBufLen)
			st.setComp(compBufRow, Store(st.comp(compBufRow, bufRowS), buf, row))
			st.setComp(compBufLen, Store(st.comp(compBufLen, bufLenS), buf, Add(ln, n)))
			return VIface{C64(0), C64(0)}, pc
		})
	externWrites["encoding/binary.Write"] = []string{compBufRow, compBufLen}

	regExtern("(*bytes.Buffer).Bytes", "Buffer.Bytes(): a slice holding everything written so far (modelled as a snapshot)",
		func(ex *Exec, fr *Frame, st *State, pc *Term, fn *ssa.Function, args []Value, pos token.Pos) (Value, *Term) {
			buf := args[0].(VPtr).T
			ex.safety(fr, "nil", pos, pc, Not(Eq(buf, C64(0))))
			row := Select(st.comp(compBufRow, bufRowS), buf)
			ln := Select(st.comp(compBufLen, bufLenS), buf)
			p := ex.alloc(st, pc)
			byteT := types.Typ[types.Uint8]
			name := eCompName(byteT, 0)
			c := st.comp(name, ArrSort(BV64, ArrSort(BV64, BV8)))
			ex.noteWrite(name)
			st.setComp(name, Store(c, p, row))
			ex.assume(pc, And(SLe(C64(0), ln), SLe(ln, C64(int64(SizeBound)))))
			return VSlice{p, C64(0), ln, ln}, pc
		})
	externWrites["(*bytes.Buffer).Bytes"] = []string{"next", eCompName(types.Typ[types.Uint8], 0)}
	externFreshOnly["(*bytes.Buffer).Bytes|"+eCompName(types.Typ[types.Uint8], 0)] = true
	externFreshOnly["os.ReadFile|"+eCompName(types.Typ[types.Uint8], 0)] = true
	compSorts[eCompName(types.Typ[types.Uint8], 0)] = ArrSort(BV64, ArrSort(BV64, BV8))

	regExtern("os.WriteFile", "os.WriteFile(name, data, perm): the ghost file map at name becomes data; returns nil (I/O assumed to succeed)",
		func(ex *Exec, fr *Frame, st *State, pc *Term, fn *ssa.Function, args []Value, pos token.Pos) (Value, *Term) {
			name := args[0].(VStr).T
			d := args[1].(VSlice)
			src := Select(st.comp(eCompName(types.Typ[types.Uint8], 0), ArrSort(BV64, ArrSort(BV64, BV8))), d.Arr)
			row := RowCopy(ConstArr(ArrSort(BV64, BV8), Const(0, 8)), C64(0), src, d.Off, d.Len)
			ex.noteWrite(compFileRow)
			ex.noteWrite(compFileLen)
			st.setComp(compFileRow, Store(st.comp(compFileRow, fileRowS), name, row))
			st.setComp(compFileLen, Store(st.comp(compFileLen, fileLenS), name, d.Len))
			return VIface{C64(0), C64(0)}, pc
		})
	externWrites["os.WriteFile"] = []string{compFileRow, compFileLen}

	regExtern("os.ReadFile", "os.ReadFile(name): returns the ghost file content at name and a nil error (I/O assumed to succeed)",
		func(ex *Exec, fr *Frame, st *State, pc *Term, fn *ssa.Function, args []Value, pos token.Pos) (Value, *Term) {
			name := args[0].(VStr).T
			row := Select(st.comp(compFileRow, fileRowS), name)
			ln := Select(st.comp(compFileLen, fileLenS), name)
			p := ex.alloc(st, pc)
			cn := eCompName(types.Typ[types.Uint8], 0)
			c := st.comp(cn, ArrSort(BV64, ArrSort(BV64, BV8)))
			ex.noteWrite(cn)
			st.setComp(cn, Store(c, p, row))
			ex.assume(pc, And(SLe(C64(0), ln), SLe(ln, C64(int64(SizeBound)))))
			return VTuple{[]Value{VSlice{p, C64(0), ln, ln}, VIface{C64(0), C64(0)}}}, pc
		})
	externWrites["os.ReadFile"] = []string{"next", eCompName(types.Typ[types.Uint8], 0)}

	be := func(n int) externFn {
		return func(ex *Exec, fr *Frame, st *State, pc *Term, fn *ssa.Function, args []Value, pos token.Pos) (Value, *Term) {
			s := args[len(args)-1].(VSlice)
			ex.safety(fr, "index", pos, pc, SLe(C64(int64(n)), s.Len))
			row := Select(st.comp(eCompName(types.Typ[types.Uint8], 0), ArrSort(BV64, ArrSort(BV64, BV8))), s.Arr)
			var t *Term
			for i := 0; i < n; i++ {
				b := ZExt(Select(row, Add(s.Off, C64(int64(i)))), 8*n)
				sh := Shl(b, Const(uint64(8*(n-1-i)), 8*n))
				if t == nil {
					t = sh
				} else {
					t = BOr(t, sh)
				}
			}
			return VBV{t}, pc
		}
	}
	regExtern("(encoding/binary.bigEndian).Uint16", "BigEndian.Uint16(b): requires len(b) >= 2; big-endian value", be(2))
	regExtern("(encoding/binary.bigEndian).Uint32", "BigEndian.Uint32(b): requires len(b) >= 4; big-endian value", be(4))
	regExtern("(encoding/binary.bigEndian).Uint64", "BigEndian.Uint64(b): requires len(b) >= 8; big-endian value", be(8))
}

// ghost accessors usable from specification code
func init() {
	regExtern("github.com/free5gc/chf/cdr/cdrFile.verif_fileLen", "specification primitive: length of the ghost file", func(ex *Exec, fr *Frame, st *State, pc *Term, fn *ssa.Function, args []Value, pos token.Pos) (Value, *Term) {
		return VBV{Select(st.comp(compFileLen, fileLenS), args[0].(VStr).T)}, pc
	})
	regExtern("github.com/free5gc/chf/cdr/cdrFile.verif_fileByte", "specification primitive: k-th byte of the ghost file", func(ex *Exec, fr *Frame, st *State, pc *Term, fn *ssa.Function, args []Value, pos token.Pos) (Value, *Term) {
		row := Select(st.comp(compFileRow, fileRowS), args[0].(VStr).T)
		return VBV{Select(row, args[1].(VBV).T)}, pc
	})
}

func init() {
	regExtern("github.com/free5gc/chf/cdr/cdrFile.verif_bufLen", "specification primitive: number of bytes written to the buffer", func(ex *Exec, fr *Frame, st *State, pc *Term, fn *ssa.Function, args []Value, pos token.Pos) (Value, *Term) {
		return VBV{Select(st.comp(compBufLen, bufLenS), args[0].(VPtr).T)}, pc
	})
	regExtern("github.com/free5gc/chf/cdr/cdrFile.verif_bufByte", "specification primitive: k-th byte written to the buffer", func(ex *Exec, fr *Frame, st *State, pc *Term, fn *ssa.Function, args []Value, pos token.Pos) (Value, *Term) {
		row := Select(st.comp(compBufRow, bufRowS), args[0].(VPtr).T)
		return VBV{Select(row, args[1].(VBV).T)}, pc
	})
}

var _ = fmt.Sprintf
